"""python selftest/run.py [name-substring ...]  -- applies each mutant to a scratch copy of /repo/src under /var/tmp,
runs the expected checks (quick tier) against it and records whether they fire.  Scratch copies are removed."""
import json
import os
import shutil
import subprocess
import sys
import time

HERE = os.path.dirname(os.path.abspath(__file__))
VERIF = os.path.dirname(HERE)
sys.path.insert(0, HERE)
from mutants import M  # noqa


def main():
    sel = sys.argv[1:]
    res_path = os.path.join(HERE, "results.json")
    results = json.load(open(res_path)) if os.path.exists(res_path) else {}
    for mu in M:
        if sel and not any(s in mu["name"] for s in sel):
            continue
        scratch = f"/var/tmp/gbv-scratch-{os.getpid()}"
        shutil.rmtree(scratch, ignore_errors=True)
        shutil.copytree("/repo/src", os.path.join(scratch, "src"))
        f = os.path.join(scratch, "src", "gbigsmiles", mu["file"])
        s = open(f).read()
        if s.count(mu["old"]) < 1:
            print(f"!! {mu['name']}: pattern not found in {mu['file']}")
            results[mu["name"]] = {"error": "pattern not found"}
            shutil.rmtree(scratch, ignore_errors=True)
            continue
        s = s.replace(mu["old"], mu["new"], 1)
        if "_SHARED" in mu["new"]:
            s = s.replace("\nclass Stochastic(", "\n_SHARED = {}\n\n\nclass Stochastic(", 1)
        open(f, "w").write(s)
        rec = {}
        for pid in mu["pids"]:
            env = dict(os.environ, GBV_REPO=scratch, GBV_EVIDENCE_DIR=os.path.join(scratch, "evidence"), GBV_REPLAY_DIR=os.path.join(scratch, "replays"), VERIF_SEED="0")
            t0 = time.time()
            p = subprocess.run([os.path.join(VERIF, "vcheck"), pid, "--tier", "quick"], capture_output=True, text=True, env=env, cwd=VERIF)
            lines = [l for l in p.stdout.splitlines() if l.startswith(("VIOLATION", "  cls=", "INCONCLUSIVE"))]
            rec[pid] = {"rc": p.returncode, "seconds": round(time.time() - t0, 1), "first": [l[:260] for l in lines[:4]]}
            print(f"{mu['name']:48s} {pid} rc={p.returncode} {rec[pid]['seconds']}s {lines[1][:150] if len(lines) > 1 else (lines[0][:150] if lines else '')}", flush=True)
        results[mu["name"]] = rec
        shutil.rmtree(scratch, ignore_errors=True)
        json.dump(results, open(res_path, "w"), indent=1)


if __name__ == "__main__":
    main()
