"""Deliberate property-breaking edits (string replacements on the fixed tree) used to validate the monitors.
(name, property ids expected to fire, file under src/gbigsmiles, old, new)"""
M = []


def m(name, pids, f, old, new):
    M.append({"name": name, "pids": pids, "file": f, "old": old, "new": new})


# ---- C01
m("c01-weight-printed-as-int", ["C01"], "bond.py", 'string += f"{self.weight}"', 'string += f"{int(self.weight)}"')
m("c01-gauss-params-swapped-in-text", ["C01", "C11"], "distribution.py", 'return f"|gauss({self._mu}, {self._sigma})|"', 'return f"|gauss({self._sigma}, {self._mu})|"')
m("c01-mixture-printed-from-system-mass", ["C01", "C12"], "mixture.py", 'return f".|{self.absolute_mass}|"', 'return f".|{self.system_mass if self.system_mass else self.absolute_mass}|"')
m("c01-noext-keeps-weights", ["C01"], "bond.py", "if extension and (self.transitions is not None or self.weight != 1.0):", "if (self.transitions is not None or self.weight != 1.0):")
# ---- C02
m("c02-branch-bookkeeping-reverted", ["C02"], "token.py", '''    for char in string:
        if char == "(":
            atom_to_bond.append(atom_to_bond[-1])
        if char == ")":
            atom_to_bond.pop(-1)''', '''    for _ in range(string.count("(")):
        atom_to_bond.append(atom_to_bond[-1])
    for _ in range(string.count(")")):
        atom_to_bond.pop(-1)''')
m("c02-id-parsed-off-by-one", ["C02", "C01"], "bond.py", "self.descriptor_id = int(id_str.strip())", "self.descriptor_id = int(id_str.strip()) % 100")
m("c02-transitions-truncated", ["C02"], "bond.py", "self.transitions = np.asarray(weight_list)", "self.transitions = np.asarray(weight_list[:6])")
m("c02-triple-read-as-double", ["C02", "C03"], "bond.py", "self.bond_type = rc.BondType.TRIPLE", "self.bond_type = rc.BondType.DOUBLE")
# ---- C03
m("c03-dollar-bonds-lt", ["C03"], "bond.py", '''        if self.descriptor == "$" and other.descriptor == "$":
            return True''', '''        if self.descriptor == "$" and other.descriptor in ("$", "<"):
            return True''')
m("c03-ids-above-9-ignored", ["C03"], "bond.py", "        if self.descriptor_id != other.descriptor_id:\n            return False", "        if self.descriptor_id != other.descriptor_id and not (isinstance(self.descriptor_id, int) and isinstance(other.descriptor_id, int) and self.descriptor_id >= 10 and other.descriptor_id >= 10):\n            return False")
m("c03-bond-order-ignored", ["C03"], "bond.py", "        if self.bond_type != other.bond_type:\n            return False", "        if False:\n            return False")
# ---- C04
m("c04-compat-check-dropped", ["C04"], "mol_gen.py", "        if not other_bond_descriptors[other_bond_idx].is_compatible(", "        if False and not other_bond_descriptors[other_bond_idx].is_compatible(")
m("c04-bond-type-constant", ["C04"], "mol_gen.py", "            self.bond_descriptors[self_bond_idx].bond_type,\n        )\n        self.graph = ", "            Chem.BondType.SINGLE,\n        )\n        self.graph = ")
m("c04-descriptor-not-removed", ["C04", "C06"], "mol_gen.py", "        del other_bond_descriptors[other_bond_idx]\n", "        pass\n")
m("c04-atom-shift-off-by-one", ["C04", "C05"], "mol_gen.py", "            bd.atom_bonding_to += current_atom_number\n", "            bd.atom_bonding_to += max(current_atom_number - 1, 0)\n")
# ---- C05
m("c05-weight-from-sanitized-without-last", ["C05", "C07"], "mol_gen.py", "        return rdDescriptors.HeavyAtomMolWt(self._mol)", "        return rdDescriptors.HeavyAtomMolWt(self._mol) - 0.5")
m("c05-residue-graph-edge-missing", ["C05", "C04"], "mol_gen.py", "        self.graph.add_edge(\n            self.bond_descriptors[self_bond_idx].node_idx,", "        if len(self.graph) % 5: self.graph.add_edge(\n            self.bond_descriptors[self_bond_idx].node_idx,")
# ---- C06
m("c06-reserve-among-all-open", ["C06", "C08"], "stochastic.py", "                    my_mol.bond_descriptors, invert_terminal, rng\n", "                    my_mol.bond_descriptors, None, rng\n")
m("c06-finalisation-skipped-for-dollar", ["C06"], "stochastic.py", "            while len(my_mol.bond_descriptors) > 0:\n                starting_bond_idx", "            while len(my_mol.bond_descriptors) > 0 and not (len(my_mol.bond_descriptors) == 1 and my_mol.bond_descriptors[0].descriptor_id == 2):\n                starting_bond_idx")
# ---- C07
m("c07-ge-instead-of-gt", ["C07"], "stochastic.py", "                    > target_mol_weight\n", "                    >= target_mol_weight\n")
m("c07-start-mass-not-subtracted", ["C07", "C09", "C08"], "stochastic.py", "rdDescriptors.HeavyAtomMolWt(my_mol.mol) - starting_mol_weight", "rdDescriptors.HeavyAtomMolWt(my_mol.mol)")
m("c07-finalised-copy-mass", ["C07", "C09", "C08"], "stochastic.py", "rdDescriptors.HeavyAtomMolWt(my_mol.mol) - starting_mol_weight", "rdDescriptors.HeavyAtomMolWt(finalized_my_mol.mol) - starting_mol_weight")
# ---- C08
m("c08-weights-ignored", ["C08"], "core.py", "        weights.append(bond_descriptors[i].weight)", "        weights.append(1.0)")
m("c08-equal-rule-always", ["C08"], "core.py", "if len(compatible_idx) > 0 and np.all(weights == weights[0]):", "if len(compatible_idx) > 0 and np.all(weights >= 0) and weights.min() < 0.3:")
m("c08-list-reversed", ["C08"], "stochastic.py", "                    prob = starting_bond.transitions / starting_bond.weight", "                    prob = starting_bond.transitions[::-1] / starting_bond.weight")
m("c08-left-terminal-weight-not-transferred", ["C08"], "stochastic.py", "                prefix.bond_descriptors[0].transitions = self.left_terminal.transitions\n", "                pass\n")
m("c08-end-groups-offered-in-growth", ["C08", "C06"], "stochastic.py", "                        self.repeat_bonds, starting_bond, rng\n", "                        self.repeat_bonds + self.end_bonds, starting_bond, rng\n")
# ---- C09 / C11
m("c09-z-uses-mw", ["C09", "C11", "C19"], "distribution.py", "self._z = self._Mn / (self._Mw - self._Mn)", "self._z = self._Mw / (self._Mw - self._Mn)")
m("c09-uniform-scale-high", ["C09", "C11"], "distribution.py", "scale=(self._high - self._low)", "scale=self._high")
m("c09-sigma-as-variance", ["C09", "C11"], "distribution.py", "stats.norm(loc=self._mu, scale=self._sigma)", "stats.norm(loc=self._mu, scale=np.sqrt(self._sigma))")
m("c09-lognormal-D-not-lnD", ["C09", "C11"], "distribution.py", "            prefactor = 1 / (m * np.sqrt(2 * np.pi * np.log(D)))\n            value = prefactor * np.exp(-((np.log(m / M) + np.log(D) / 2) ** 2) / (2 * np.log(D)))", "            prefactor = 1 / (m * np.sqrt(2 * np.pi * (D - 1)))\n            value = prefactor * np.exp(-((np.log(m / M) + (D - 1) / 2) ** 2) / (2 * (D - 1)))")
m("c11-interval-uses-pdf", ["C11", "C19"], "distribution.py", "            return self._distribution.cdf(mw.value) - self._distribution.cdf(mw.previous)", "            return self._distribution.pdf(mw.value) - self._distribution.pdf(mw.previous)")
m("c11-poisson-mean-shifted", ["C11", "C09"], "distribution.py", "self._distribution = stats.poisson(mu=self._N)", "self._distribution = stats.poisson(mu=self._N + 1)")
m("c09-one-draw-shared", ["C09", "C07"], "stochastic.py", "            target_mol_weight = self.distribution.draw_mw(rng)", "            target_mol_weight = _SHARED.setdefault(id(rng), self.distribution.draw_mw(rng))\n            if len(_SHARED) > 50: _SHARED.clear()")
# ---- C10
m("c10-descriptors-shared-not-copied", ["C10"], "mol_gen.py", "        self.bond_descriptors = copy.deepcopy(token.bond_descriptors)", "        self.bond_descriptors = list(token.bond_descriptors)")
m("c10-global-rng-for-draw", ["C10"], "stochastic.py", "            target_mol_weight = self.distribution.draw_mw(rng)", "            target_mol_weight = self.distribution.draw_mw()")
m("c10-elements-returns-internals", ["C10"], "molecule.py", "        return copy.deepcopy(self._elements)", "        return list(self._elements)")
m("c10-left-terminal-weight-written-on-token", ["C10"], "stochastic.py", "                start_token = self.end_tokens[self.end_bond_token_idx[end_bond_idx]]", "                start_token = self.end_tokens[self.end_bond_token_idx[end_bond_idx]]\n                start_token.bond_descriptors[0].weight += 0.125")
# ---- C12
m("c12-remainder-from-wrong-total", ["C12"], "system.py", "        weight = 100.0 - total_fraction\n", "        weight = 100.0 - total_fraction * 0.9\n")
m("c12-tolerance-blown-up", ["C12"], "system.py", "if num_fractions == len(molecules) and abs(total_fraction - 100) > 1e-6:", "if num_fractions == len(molecules) and abs(total_fraction - 100) > 5:")
m("c12-setter-does-not-update", ["C12"], "mixture.py", "        if self._relative_mass is not None:\n            self._absolute_mass = self._relative_mass / 100.0 * mass\n            return", "        if self._relative_mass is not None:\n            return")
# ---- C13 / C14
m("c13-le-instead-of-lt", ["C13"], "system.py", "        while generated_total_mass < self.system_mass:", "        while generated_total_mass <= self.system_mass * 1.02:")
m("c13-full-generation-guard-dropped-and-partial", ["C13"], "system.py", "            mol_gen = mol.generate(rng=rng)\n            generated_total_mass += mol_gen.weight", "            mol_gen = mol._elements[0].generate(rng=rng) if len(mol._elements) > 1 and generated_total_mass > 0 else mol.generate(rng=rng)\n            generated_total_mass += mol_gen.weight")
m("c14-uniform-component-pick", ["C14"], "system.py", "                range(len(relative_fractions)), p=relative_fractions / np.sum(relative_fractions)\n            )\n            mol = self._molecules[mol_idx]\n            mol_gen = mol.generate(rng=rng)", "                range(len(relative_fractions)), p=np.ones(len(relative_fractions)) / len(relative_fractions)\n            )\n            mol = self._molecules[mol_idx]\n            mol_gen = mol.generate(rng=rng)")
# ---- C15
m("c15-unbalanced-branch-check-deleted", ["C15"], "token.py", 'if big_smiles_ext.count("(") != big_smiles_ext.count(")"):', "if False:")
m("c15-percent-range-check-deleted", ["C15", "C12"], "mixture.py", "            if rel_mass < 0 or rel_mass > 100:", "            if False:")
m("c15-transition-length-check-deleted", ["C15"], "stochastic.py", "            if bd.transitions is not None and len(bd.transitions) != len(self.bond_descriptors):", "            if False:")
m("c15-prefix-check-deleted", ["C15"], "stochastic.py", "                ) != self.left_terminal.generate_string(False):", "                ) != self.left_terminal.generate_string(False) and False:")
# ---- C16
m("c16-normalise-over-all-descriptors", ["C16"], "molecule.py", "                for element_bd in element.bond_descriptors:\n                    if graph_bd.is_compatible(element_bd):\n                        if bond_descriptors[element_bd] in element.repeat_tokens:\n                            repeat_weight += element_bd.weight", "                for element_bd in element.bond_descriptors:\n                    if True:\n                        if bond_descriptors[element_bd] in element.repeat_tokens:\n                            repeat_weight += element_bd.weight")
# (the first version dropped the terminal filter from the normalisation sum only: equivalent, the edge loop keeps the filter and the sum is unused)
m("c16-terminal-filter-dropped", ["C16"], "molecule.py", "                            and graph_bd.is_compatible(element.right_terminal)\n                            and bond_descriptors[graph_bd] in element.repeat_tokens\n                            and other_bd.weight > 0\n                        ):\n                            G.add_edge(", "                            and bond_descriptors[graph_bd] in element.repeat_tokens\n                            and other_bd.weight > 0\n                        ):\n                            G.add_edge(")
# ---- C17
m("c17-wrong-token-offset", ["C17", "C18"], "stochastic_atom_graph.py", "                        second_atom = other_bd.atom_bonding_to + nested_offset[other_bd_token_idx]\n\n", "                        second_atom = other_bd.atom_bonding_to + nested_offset[graph_bd_token_idx]\n\n")
m("c17-source-weight", ["C17"], "stochastic_atom_graph.py", "                                stochastic_weight=other_bd.weight,", "                                stochastic_weight=graph_bd.weight,")
m("c17-static-bond-order-lost", ["C17", "C18"], "stochastic_atom_graph.py", "                    bond_type=int(static_bonds[other_idx].GetBondType()),", "                    bond_type=1,")
# ---- C18
m("c18-termination-fill-reverted", ["C18"], "graph_generate.py", "            self._fill_static_edges(last_node_id, reactive=False)\n", "\n")
m("c18-terminating-group-stays-reactive", ["C18"], "graph_generate.py", "            self._fill_static_edges(last_node_id, reactive=False)\n", "            self._fill_static_edges(last_node_id)\n")
m("c18-rng-not-used-for-stochastic-pick", ["C18"], "graph_generate.py", "        idx = self.rng.choice(len(stochastic_edges), p=weights)", "        idx = np.random.default_rng().choice(len(stochastic_edges), p=weights)")
# ---- C19
m("c19-start-mass-counted-again", ["C19"], "mol_prob.py", "            if isinstance(self._big.elements[self._active_element], SmilesToken):\n                self._element_weights[self._active_element] += pattern_mw", "            if True:\n                self._element_weights[self._active_element] += pattern_mw")
m("c19-uniquify-reverted", ["C19"], "mol_prob.py", "GetSubstructMatches(pattern, uniquify=False)", "GetSubstructMatches(pattern)")
m("c19-end-token-mass-counted", ["C19"], "mol_prob.py", "                    # Note that end tokens do not increase the molecular weight (for generation purposes)\n", "                    new_mol._element_weights[new_mol._active_element] += 1.0\n")
# ---- C20
m("c20-cache-names-reverted", ["C20", "C10"], "forcefield_helper.py", "        _global_smarts_rule_file = smarts_filename\n        _global_nonbonded_itp_file = nb_filename", "        _global_nonbonded_itp_file = nb_filename\n        _global_nonbonded_itp_file = smarts_filename")
m("c20-completeness-check-dropped", ["C20"], "forcefield_helper.py", "        if len(final_dict) != mol.GetNumAtoms():", "        if False:")
m("c20-partial-molecule-typed", ["C20"], "mol_gen.py", "        if not self.fully_generated:\n            raise RuntimeError(\n                \"Forcefield", "        if False:\n            raise RuntimeError(\n                \"Forcefield")
m("c20-first-match-depends-on-order", ["C20"], "forcefield_helper.py", "                if len(match_rule) > len(final_match):", "                if len(match_rule) > len(final_match) and atom_num % 2 == 0:")
