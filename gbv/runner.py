"""Shard cases over subprocesses, collect per-case observations, classify witnesses against the
committed known-findings file, write the evidence file, print the verdict lines.

Verdicts are three valued: exit 0 (held on what was observed; KNOWN-FINDING lines allowed),
exit 1 (VIOLATION lines), exit 2 (INCONCLUSIVE: a monitor was not reached / a floor missed / a
watchdog fired)."""
import collections
import hashlib
import importlib
import json
import os
import re
import subprocess
import sys
import time

from . import env

KNOWN_FILE = os.path.join(env.VERIF, "known_findings.json")
EVIDENCE_DIR = os.environ.get("GBV_EVIDENCE_DIR") or os.path.join(env.VERIF, "evidence")
REPLAY_DIR = os.environ.get("GBV_REPLAY_DIR") or os.path.join(env.VERIF, "replays")
COVERAGE = {}  # library file -> lines executed by the workers of this run (sys.monitoring, gbv.monitors.steps)


def library_coverage(pid):
    """per anchor file of the property: executable lines inside functions, lines the workload executed, ranges never executed"""
    from .monitors import steps

    files = []
    try:
        with open(os.path.join(env.VERIF, "properties.jsonl")) as fh:
            for line in fh:
                p = json.loads(line)
                if p["id"] == pid:
                    files = [f for f in p["anchors"]["files"] if f.endswith(".py")]
    except OSError:
        pass
    out = {}
    for f in files:
        path = os.path.join(env.REPO, f)
        try:
            ex = steps.executable_lines(path)
        except (OSError, SyntaxError):
            continue
        hit = COVERAGE.get(f, set()) & ex
        order = sorted(ex)
        pos = {ln: k for k, ln in enumerate(order)}
        missed = sorted(ex - hit)
        ranges, start, prev = [], None, None
        for ln in missed:
            if start is None:
                start = prev = ln
            elif pos[ln] == pos[prev] + 1:  # no executed line in between
                prev = ln
            else:
                ranges.append(f"{start}-{prev}" if prev > start else f"{start}")
                start = prev = ln
        if start is not None:
            ranges.append(f"{start}-{prev}" if prev > start else f"{start}")
        out[f] = {"executable_lines_in_functions": len(ex), "executed": len(hit), "never_executed": ranges[:60]}
    return out


def load_check(pid):
    return importlib.import_module(f"gbv.checks.{pid.lower()}")


def load_known():
    try:
        with open(KNOWN_FILE) as fh:
            return json.load(fh)
    except FileNotFoundError:
        return {"findings": [], "fixed": []}


def repo_state():
    def git(*a):
        try:
            return subprocess.run(["git", "-C", env.REPO, *a], capture_output=True, text=True, timeout=60).stdout
        except Exception:
            return ""

    head = git("rev-parse", "HEAD").strip()
    diff = git("diff", "HEAD", "--", "src")
    return {"head": head, "dirty_diff_sha1": hashlib.sha1(diff.encode()).hexdigest() if diff else None}


def _spawn(pid, tier, seed, shard, nshards, out_path, only=None):
    cmd = [sys.executable, "-X", "faulthandler", "-m", "gbv.worker", pid, tier, str(seed), str(shard), str(nshards), out_path]
    if only is not None:
        cmd.append(",".join(map(str, only)))
    e = dict(os.environ)
    e["PYTHONPATH"] = env.VERIF + os.pathsep + env.REPO_SRC + os.pathsep + e.get("PYTHONPATH", "")
    e["PYTHONHASHSEED"] = "0"
    e["PYTHONDONTWRITEBYTECODE"] = "1"
    e.setdefault(env.GUARD, "1")
    for v in ("OMP_NUM_THREADS", "OPENBLAS_NUM_THREADS", "MKL_NUM_THREADS"):
        e[v] = "1"
    err = open(out_path + ".err", "w")
    return subprocess.Popen(cmd, stdout=subprocess.DEVNULL, stderr=err, env=e, cwd=env.VERIF)


def _read_results(path):
    started, done = {}, {}
    try:
        with open(path) as fh:
            for line in fh:
                line = line.strip()
                if not line:
                    continue
                try:
                    rec = json.loads(line)
                except ValueError:
                    continue
                if "start" in rec:
                    started[rec["start"]] = True
                elif "coverage" in rec:
                    for fn, lines in rec["coverage"].items():
                        COVERAGE.setdefault(fn, set()).update(lines)
                else:
                    done[rec["i"]] = rec
    except FileNotFoundError:
        pass
    return started, done


def execute(pid, tier, seed, ncases, jobs, shard_timeout):
    """Run all cases; returns (results by index, crashes, watchdog flag)."""
    os.makedirs(env.WORK, exist_ok=True)
    tag = f"{pid}-{tier}-{seed}-{os.getpid()}"
    nshards = max(1, min(jobs, ncases))
    procs = []
    for k in range(nshards):
        out = os.path.join(env.WORK, f"{tag}-{k}.jsonl")
        if os.path.exists(out):
            os.remove(out)
        procs.append((k, out, _spawn(pid, tier, seed, k, nshards, out)))
    results, crashes, watchdog = {}, [], False
    deadline = time.time() + shard_timeout
    pending = list(procs)
    rounds = 0
    while pending:
        k, out, p = pending.pop(0)
        try:
            p.wait(timeout=max(1.0, deadline - time.time()))
        except subprocess.TimeoutExpired:
            p.kill()
            p.wait()
            watchdog = True
        started, done = _read_results(out)
        results.update(done)
        mine = [i for i in range(ncases) if i % nshards == k]
        missing = [i for i in mine if i not in done and i not in results]
        inflight = [i for i in missing if i in started]
        if p.returncode != 0 and inflight and not watchdog:
            # the worker died inside a case: record it, carry on with the rest of the shard
            i = inflight[0]
            try:
                tail = open(out + ".err").read()[-3000:]
            except OSError:
                tail = ""
            crashes.append({"i": i, "returncode": p.returncode, "stderr_tail": tail})
            results[i] = {"i": i, "res": {"crash": True, "returncode": p.returncode, "stderr_tail": tail}}
            rest = [j for j in missing if j != i]
            rounds += 1
            if rest and rounds < 200:
                out2 = out + f".r{rounds}"
                pending.append((k, out2, _spawn(pid, tier, seed, k, nshards, out2, only=rest)))
        elif missing and not watchdog and p.returncode != 0:
            try:
                tail = open(out + ".err").read()[-3000:]
            except OSError:
                tail = ""
            crashes.append({"i": None, "returncode": p.returncode, "stderr_tail": tail, "missing": len(missing)})
        for f in (out, out + ".err"):
            try:
                if p.returncode == 0:
                    os.remove(f)
            except OSError:
                pass
    return results, crashes, watchdog


def _slug(s):
    return re.sub(r"[^A-Za-z0-9_.-]+", "_", s)[:80]


def run_check(pid, tier, seed, jobs=None):
    t0 = time.time()
    mod = load_check(pid)
    jobs = jobs or int(os.environ.get("VERIF_JOBS", "16"))
    cases = mod.plan(tier, seed)
    ncases = len(cases)
    shard_timeout = getattr(mod, "SHARD_TIMEOUT", {"quick": 900, "thorough": 5400})[tier]
    results, crashes, watchdog = execute(pid, tier, seed, ncases, jobs, shard_timeout)

    viols, nt, cnt, samples, inconc, datas = [], set(), collections.Counter(), [], [], []
    missing = 0
    for i in range(ncases):
        rec = results.get(i)
        if rec is None:
            missing += 1
            continue
        res = rec["res"]
        if res.get("crash"):
            viols.append({"cls": "native-crash-or-worker-death", "msg": f"worker died (rc={res.get('returncode')}) while running case", "case": cases[i], "stderr_tail": res.get("stderr_tail", "")})
            continue
        if res.get("harness_error"):
            inconc.append(f"harness error in case {i}: {res['harness_error'][-600:]}")
            continue
        if res.get("timeout"):
            cnt["case_timeouts"] += 1
            if getattr(mod, "TIMEOUT_IS_INCONCLUSIVE", True):
                inconc.append(f"case {i} hit the wall-clock watchdog")
            continue
        for v in res.get("viol", []):
            v.setdefault("case", cases[i])
            viols.append(v)
        for k in res.get("nt", []):
            nt.add(k)
        for k, v in res.get("cnt", {}).items():
            cnt[k] += v
        if res.get("sample") is not None and len(samples) < 8:
            samples.append(res["sample"])
        if res.get("data") is not None:
            datas.append((i, res["data"]))
        if res.get("inconclusive"):
            inconc.append(res["inconclusive"])
    times = sorted(((results[i]["res"].get("_t", 0), i) for i in results), reverse=True)[:5]
    cnt_slowest = [{"case": cases[i], "seconds": t} for t, i in times[:3]]
    if watchdog:
        inconc.append("outer wall-clock watchdog fired")
    if missing:
        inconc.append(f"{missing} cases produced no result")
    for c in crashes:
        if c["i"] is None:
            inconc.append(f"worker exited rc={c['returncode']} outside a case: {c['stderr_tail'][-400:]}")

    extra = {}
    if hasattr(mod, "finalize"):
        fin = mod.finalize(datas, cnt, nt, tier, seed) or {}
        viols += fin.get("viol", [])
        inconc += fin.get("inconclusive", [])
        extra = fin.get("coverage", {})
        for s in fin.get("samples", []):
            if len(samples) < 12:
                samples.append(s)

    # --- classification against the committed known-findings file (read only) ---
    known = load_known()
    kf = {(f["property"], f["cls"]): f for f in known.get("findings", [])}
    known_seen, unknown = collections.OrderedDict(), collections.OrderedDict()
    for v in viols:
        key = (pid, v["cls"])
        if key in kf:
            known_seen.setdefault(v["cls"], []).append(v)
        else:
            unknown.setdefault(v["cls"], []).append(v)

    lines = []
    for cls, vs in known_seen.items():
        lines.append(f"KNOWN-FINDING: property={pid} {kf[(pid, cls)]['what']} [cls={cls}; re-observed {len(vs)}x, e.g. {vs[0].get('msg', '')[:160]}]")
    replay_paths = []
    if unknown:
        d = os.path.join(REPLAY_DIR, pid)
        os.makedirs(d, exist_ok=True)
        for cls, vs in unknown.items():
            path = os.path.join(d, f"{_slug(cls)}-s{seed}.json")
            with open(path, "w") as fh:
                json.dump({"property": pid, "tier": tier, "seed": seed, "cls": cls, "count": len(vs), "witnesses": vs[:5]}, fh, indent=1, default=str)
            replay_paths.append(path)
            lines.append(f"VIOLATION property={pid} replay={path}")
            lines.append(f"  cls={cls} count={len(vs)} first: {vs[0].get('msg', '')[:300]}")

    floors = getattr(mod, "FLOORS", {}).get(tier, {})
    for name, minimum in floors.items():
        got = len(nt) if name == "distinct_nontrivial" else cnt.get(name, 0)
        if got < minimum:
            inconc.append(f"coverage floor missed: {name}={got} < {minimum}")

    evaluations = int(cnt.get("evaluations", 0)) or ncases
    coverage = {
        "evaluations": evaluations,
        "distinct_nontrivial": len(nt),
        "rule": mod.RULE,
        "samples": samples if samples else [cases[0]] if cases else [],
        "cases_planned": ncases,
        "monitor_counters": dict(sorted(cnt.items())),
        "known_findings_reobserved": {cls: len(vs) for cls, vs in known_seen.items()},
        "unlisted_violation_classes": {cls: len(vs) for cls, vs in unknown.items()},
        "inconclusive_reasons": inconc[:20],
        "slowest_cases": cnt_slowest,
        "repo": repo_state(),
        "verdict": "violated" if unknown else ("inconclusive" if inconc else "held-on-observed"),
    }
    coverage["library_lines_reached"] = library_coverage(pid)
    if getattr(mod, "EXHAUSTIVE", False):
        coverage["exhaustive"] = True
    coverage.update(extra)
    evidence = {
        "property_id": pid,
        "tier": tier,
        "seed": int(seed),
        "level": getattr(mod, "LEVEL", "exploration"),
        "coverage": coverage,
        "assumptions": getattr(mod, "ASSUMPTIONS", []),
        "wall_s": round(time.time() - t0, 2),
        "violations": sum(len(v) for v in unknown.values()),
    }
    os.makedirs(EVIDENCE_DIR, exist_ok=True)
    with open(os.path.join(EVIDENCE_DIR, f"{pid}.json"), "w") as fh:
        json.dump(evidence, fh, indent=1, default=str)
        fh.write("\n")
    _validate_evidence(evidence, inconc)

    for ln in lines:
        print(ln)
    if unknown:
        print(f"{pid}: VIOLATED ({evidence['violations']} witnesses in {len(unknown)} unlisted classes); evaluations={evaluations} wall={evidence['wall_s']}s")
        return 1
    if inconc:
        for r in inconc[:10]:
            print(f"INCONCLUSIVE property={pid} reason={r}")
        return 2
    print(f"{pid}: held on {evaluations} evaluations ({coverage['distinct_nontrivial']} distinct non-trivial) tier={tier} seed={seed} wall={evidence['wall_s']}s; monitors: " + ", ".join(f"{k}={v}" for k, v in sorted(cnt.items())[:14]))
    return 0


def _validate_evidence(evidence, inconc):
    try:
        import jsonschema
    except Exception:
        return
    try:
        with open("/root/.vp/EVIDENCE.schema.json") as fh:
            schema = json.load(fh)
    except OSError:
        p = os.path.join(env.VERIF, "schemas", "EVIDENCE.schema.json")
        if not os.path.exists(p):
            return
        schema = json.load(open(p))
    try:
        jsonschema.validate(evidence, schema)
    except jsonschema.ValidationError as exc:
        inconc.append(f"evidence does not validate: {exc.message[:200]}")


def replay(pid, path):
    mod = load_check(pid)
    env.bootstrap()
    with open(path) as fh:
        rep = json.load(fh)
    if hasattr(mod, "setup_worker"):
        mod.setup_worker()
    bad = 0
    for w in rep.get("witnesses", []):
        case = w.get("case")
        if case is None:
            continue
        res = mod.run_case(case)
        vs = res.get("viol", [])
        print(json.dumps({"case": case, "violations": vs}, indent=1, default=str)[:6000])
        if any(v["cls"] == rep.get("cls") for v in vs):
            bad += 1
    if bad:
        print(f"VIOLATION property={pid} replay={path}")
        return 1
    print(f"{pid}: replay did not reproduce the violation class {rep.get('cls')}")
    return 0
