"""Regenerates MANIFEST.json from the table below (python -m gbv.manifest_gen)."""
import json
import os

from . import env

CHECKS = {}
NOT_APPLICABLE = {}


def check(pid, technique, text, note, design_ref):
    CHECKS[pid] = dict(technique=technique, text=text, note=note, design_ref=design_ref)


check(
    "C03",
    "exhaustive runtime enumeration against an 8-line reference relation + in-situ icontract postcondition on is_compatible",
    "Every ordered pair of the finite descriptor universe of the quantifier (840x840 index pairs, 635 distinct descriptors) is evaluated on the real "
    "BondDescriptor objects, built through the constructor and through token parsing, and compared with the conjugation rule; symmetry, weight "
    "independence and the candidate filter are checked on the same objects; parsed builds cover several positions in a token (after an atom, after one- and two-digit ring closures, alone in a branch, after a closed branch, first in the token); the weighted pick built on the filter is driven with hostile weights. The quantifier is finite, so the run is exhaustive over it.",
    "Trusts the 8-line reference relation gbv/ref/compat.py and the mapping prefix -> bond order stated in the property; ids > 12 are outside the universe.",
    "DESIGN.md section 3, C03",
)

check(
    "C01",
    "round-trip monitor on the real parser/printer: parse -> print -> re-parse with field-by-field object comparison, seeded-generation equality, regex-erasure identity",
    "Every accepted string of the generated archetype corpus (5 constructor levels, whitespace/number variants), of the 173 documented strings and of the "
    "library's own printed forms (second generation) is taken through parse/print/re-parse; fixed point, object equality (all public fields), seeded "
    "generation equality (sample) and the erasure identity of generate_string(False) are checked on each. Held on the strings explored, not on all strings.",
    "Trusts the field reader gbv/oracles/parse.py (public attributes only; System components through _molecules). Inputs are bounded by the generator (DESIGN 2.1).",
    "DESIGN.md section 3, C01",
)
check(
    "C02",
    "differential runtime oracle: parsed objects vs the AST the string was printed from and vs RDKit's dummy-atom reading of the same text; complete enumeration of descriptor placements on a fragment core",
    "Strings are printed from a structured description by an independent printer; the parsed fields (atoms, internal bonds, descriptor symbol/id/weight/"
    "transitions/attachment atom/bond order, terminals, distribution family+parameters, mixture) are compared with the AST and with RDKit's reading of "
    "the token in which every descriptor is replaced by a labelled dummy atom. Placements of 1-3 descriptors on 14 core fragments are enumerated completely; "
    "larger tokens, objects, molecules and systems are sampled.",
    "Trusts RDKit's SMILES parser as the meaning of 'an atom written at that position' and the 200-line AST printer; their mutual disagreement is reported as a harness bug (exit 2).",
    "DESIGN.md section 3, C02",
)

check(
    "C04",
    "icontract snapshot/postcondition on MolGen.attach_other evaluated on every attachment + offline audit of attach-event lineage; schedule enumeration with a scripted numpy Generator; hostile direct driving",
    "Every attachment made by the real generator (random streams over ten archetypes, and all choice sequences of bounded instances enumerated with a "
    "scripted Generator) is checked against the reference conjugation rule and the prescribed atoms/order by a contract that snapshots the molecule "
    "before and compares after; returned molecules' inter-residue bonds must be explained one-to-one by attach events of their deep-copy lineage; "
    "independently of the library's parser every inter-residue bond must sit on atoms where the notation (reference dummy-atom reader) writes compatible descriptors of that order; attach_other is also driven directly with =/# orders, incompatible pairs and out-of-range indices.",
    "Held on the executions observed (counts in the evidence). Trusts gbv/ref/compat.py and the contract code; non-single descriptors only through direct driving.",
    "DESIGN.md section 3, C04",
)
check(
    "C05",
    "quiescent-point invariant audit of every returned MolGen against AST fragments (verify-a-hint residue partition) + attach_other postcondition",
    "Each returned molecule (random streams and exhaustively enumerated choice sequences) is partitioned into residue instances using the PDB residue "
    "numbers as a hint; the partition is then verified atom by atom and bond by bond against the fragment the AST denotes (RDKit dummy-atom reading), "
    "and the residues must form one tree that MolGen.graph reproduces; sanitisation, organic-subset hydrogen counts and heavy mass are checked.",
    "Held on the molecules observed. Trusts RDKit (sanitisation, masses) and the dummy-atom reading of fragments.",
    "DESIGN.md section 3, C05",
)
check(
    "C06",
    "runtime structure audit of generated molecules against the reference model's closability analysis; logical residue budget for termination; schedule enumeration",
    "Inputs the reference model proves well-posed are generated under random streams and under all choice sequences of bounded instances; each run must "
    "complete within a logical residue budget with no open descriptor, each descriptor atom carrying exactly its written number of inter-residue bonds, "
    "elements in written order joined by exactly one bond through descriptors admitted by the terminals, end groups as leaves.",
    "Well-posedness is decided by gbv.ref.model.closable (conservative static analysis of descriptor types); inputs it cannot prove are not used for completeness clauses. Wall clock only as an outer inconclusive watchdog.",
    "DESIGN.md section 3, C06",
)

check(
    "C07",
    "offline trace checker over the recorded event log (draw, attach masses, element enter/exit, deep-copy lineage) + forced-target black-box runs + exact float boundary replay",
    "For every stochastic object of every observed generation the number of growth steps is compared with min{k: w_k - w0 > T}, T being the value the "
    "distribution returned (wrapped) or a zero-width distribution forces (black box, units counted in the returned molecule); the comparison is also "
    "run exactly at the boundary T = d_k / nextafter(d_k) with d_k recorded as the library computes it.",
    "Held on the objects observed. Masses are RDKit HeavyAtomMolWt floats; growth vs capping attachments are told apart by object identity of the growing molecule (deep copies are provisional finalisations).",
    "DESIGN.md section 3, C07",
)
check(
    "C08",
    "stateless exploration of all choice sequences with a scripted numpy Generator against the reference model's exact molecule distribution; in-situ law monitor on every rng.choice",
    "For bounded instances of every archetype all choice sequences of the real generator are enumerated; the probability of every producible molecule "
    "(sum of path probabilities per canonical SMILES) must equal the value the independent reference model computes from the notation (1e-9). On larger "
    "random instances every decision's probability vector, candidate set (repeat units / end groups / list) and left-terminal weight transfer are checked in situ.",
    "Exact for the enumerated instances only (counts in the evidence); trusts gbv/ref/model.py (selection law written from the statement, 500 lines) and RDKit canonical SMILES.",
    "DESIGN.md section 3, C08",
)

check(
    "C09",
    "scripted-quantile differential oracle (block size under a forced quantile vs closed-form quantile of the declared law) + chi-square goodness of fit on random streams with independent re-confirmation",
    "Linear chains of a single unit are generated with the real generator; under a scripted quantile the block size must equal min{n: c_n > T_ref(q)} "
    "(exact, no statistics; knife edges skipped and counted) for five families, and on random streams the size histogram of all six families is tested "
    "against pi_n = P(T<c_n) - P(T<c_(n-1)) computed from independent closed forms (two independent rejections needed).",
    "Held on the cases explored. Trusts gbv/ref/dist.py (closed forms, scipy.special) and the counting of unit instances by residue number.",
    "DESIGN.md section 3, C09",
)
check(
    "C11",
    "runtime coherence monitor of each distribution object against itself (density, interval additivity, scripted-quantile draws vs own cumulative) and against closed-form reference laws; statistical clauses re-confirmed",
    "For parameter grids and random parameters of all six families the object's density, interval probabilities and draws are evaluated on grids of masses "
    "and on a scripted quantile grid (incl. 1e-9 tails) and must form one probability law: non-negative, normalised within the discretisation bound, "
    "additive, draw = generalised inverse of the own cumulative; and they must agree with the documented law (closed forms), its mean and its text form.",
    "Held on the parameter sets explored. Wall-clock is used only to classify the known runaway bracket search (quantile above the total mass); other watchdog hits are inconclusive.",
    "DESIGN.md section 3, C11",
)

check(
    "C12",
    "enumeration of all specification shapes with random values against an independent solver of the linear mixture system; icontract class invariant on Mixture",
    "All assignments of {absolute, percent, unspecified} to 1-5 components that the notation can express, with consistent / inconsistent / over-100 values "
    "and with or without a caller-supplied system mass, are parsed by the real System; generability, system mass and every component's masses are compared "
    "with the solution of the linear system, before and after print -> re-parse (also for under-determined systems); the same text is re-used with another / no caller mass in the same process; abs = rel/100*sys is an invariant contract on the Mixture class.",
    "Shapes are exhaustive for 1-5 one-token components, values are sampled. Trusts gbv/ref/mixture.py (80 lines).",
    "DESIGN.md section 3, C12",
)
check(
    "C13",
    "offline checker over the sequence yielded by System.generator driven with a spying Generator (stop rule on the library's own partial sums, membership by residue audit)",
    "Systems of 1-4 components of all archetypes are iterated; each yielded molecule must be complete and pass the residue audit against exactly one "
    "declared component, the sequence must end exactly at the first partial sum >= system mass (also for two iterations of one system advanced alternately, and for system masses hit exactly); non-generable systems and components that can never be completed must be refused by iteration and by single generation.",
    "Held on the systems iterated. Membership is decided by the C05/C06 audit per component; residue ids <= 25.",
    "DESIGN.md section 3, C13",
)
check(
    "C14",
    "trace monitor on the component-pick probability vectors seen at the Generator interface + measured mass shares with a variance-derived tolerance band (bounded restatement of convergence)",
    "For multi-component systems with light and heavy molecules the constant pick vector p* and the measured mean molecule masses give the asymptotic mass "
    "share implied by the selection law, compared with the fractions that were WRITTEN (every number spelling); measured shares are compared within max(6.5 sigma, 3 m_max/M) and re-confirmed; systems of equal-mass isomers (incl. 0 % components) decide the clause without reference to the known finding, through the iterator and through System.generate, with ensembles of up to 60000 (quick) / 120000 (thorough) molecules so that a composition frozen after an internal batch of picks is outside the band.",
    "The limit statement is restated as a finite-mass band. On the pinned tree the per-molecule pick law is a recorded known finding; any other deviation is reported.",
    "DESIGN.md section 3, C14",
)

check(
    "C15",
    "fault-injection style workload (one structural rule broken per probe) with an exception-vs-object oracle; termination decided by a logical line budget counted with sys.monitoring",
    "Twenty-one breaking operators (incl. misuse of the call interface: wrong / complete / two-descriptor prefixes handed to Stochastic.generate and SmilesToken.generate, and objects with a non-empty left terminal -- elements of parsed molecules and of Molecule.gen_mirror() -- generated without prefix) are applied at random positions of valid instances of all archetypes; each probe must be answered with an error at "
    "construction, or be non-generable and raise on generate, or raise on generate, as the rule demands. Byte-level mutants of valid strings are parsed by "
    "all five constructors under a budget of executed library lines (100x the valid string's count + 50000), which decides termination without wall clock.",
    "Held on the probes made. Any exception type counts as rejection; operators are constructed so that the broken string violates the stated rule.",
    "DESIGN.md section 3, C15",
)

check(
    "C16",
    "differential runtime oracle: every node and edge of the real gen_reaction_graph() output against the reference selection law built from the AST",
    "For molecules of all archetypes (plus connectors with two live descriptors, zero weights, left-terminal lists) the returned DiGraph is compared "
    "node by node and edge by edge with the probabilities the reference law assigns to each pick; normalisation (0 or 1) is checked at every descriptor node, "
    "not only the last; edges must join compatible descriptors; the graph must be the same when asked twice and the mirror's graph must equal the graph of a fresh parse of the mirror's text.",
    "Held on the graphs explored. Trusts gbv/ref/graphs.py + the law in gbv/ref/model.py; absent edge categories are only demanded for repeat-unit descriptors with lawful picks.",
    "DESIGN.md section 3, C16",
)
check(
    "C17",
    "differential runtime oracle: nodes/static edges/non-static edges of the real StochasticAtomGraph against a reference graph (required-edge set + admissibility predicate) built from the AST",
    "For molecules of all archetypes, with Schulz-Zimm distributions (default) and any distribution (flag off), every node attribute, static edge and "
    "non-static edge of the MultiDiGraph is checked: admissible edges only (compatible descriptors' attachment atoms, right order, inside an object or "
    "between consecutive elements respecting terminals, never leaving an end group) and all required edges present with their weights; same graph when asked twice, mirror's graph = graph of a fresh parse of the mirror's text.",
    "Held on the graphs explored. Extra edges the statement does not forbid are tolerated; zero-weight partners need no edge.",
    "DESIGN.md section 3, C17",
)

check(
    "C18",
    "quiescent-point audit of AtomGraph.graph against the stochastic graph and the AST (verify-a-hint residue partition with bounded backtracking fallback); logical line budget; schedule enumeration with a scripted Generator",
    "Schulz-Zimm molecules of all archetypes are turned into stochastic atom graphs and generated under random streams and under all choice sequences of "
    "bounded graphs; each result must be one connected sanitisable molecule whose nodes partition into whole residues (all atoms and static bonds of the "
    "token), whose inter-residue bonds have a non-static template edge of the same order, and whose residues form a tree; equal seeds give equal molecules.",
    "Held on the molecules observed. Whether a refused graph has a start node is decided by the harness's own search over the input graph (graphs without one are outside the quantifier; an archetype whose only start node lies outside the first written token is part of the workload); draws that raise (C11 finding) are skipped.",
    "DESIGN.md section 3, C18",
)
check(
    "C19",
    "differential runtime oracle: get_ensemble_prob on harness-assembled chains (and random atom renumberings, and non-members) against closed-form interval probabilities x the reference model's exact path probability",
    "For linear chains of one directed unit per block (1-3 blocks, prefix or end-group start, all families, isotope-labelled units included) every chain length up to a bound is queried and "
    "compared with the probability that generation produces that molecule; sums over lengths, non-members (must be 0) and atom-order independence are "
    "checked; each query runs under a logical line budget. Deviations are classified as listed findings only when the value equals what the listed mechanism (or a composition of listed mechanisms) predicts exactly.",
    "Held on the queries decided. Trusts gbv/ref/dist.py and gbv/ref/model.py; for Schulz-Zimm the documented density on integer masses is summed.",
    "DESIGN.md section 3, C19",
)

check(
    "C10",
    "history-based runtime monitor: random operation sequences on long-lived objects, every seeded generation compared with a fresh-process baseline, deep identity-aware state fingerprints before/after every operation",
    "Random histories (parse, seeded and global-generator generation, printing, elements/mirror with mutation of the returned copies, both graphs, "
    "atom-graph generation, ensemble probability, typing with default and explicit files, failing generation + retry, deep copies, two objects from one "
    "string, arbitrary re-seeding of the global generator) run over pools of parsed molecules; each seeded generation must equal the result of a fresh "
    "process, printed forms / generability must not change, and no operation may change any attribute reachable from any pool object. Pools contain twins (same molecules in another atom order), extension-value variants (same plain text), strings whose generation dead-ends for some streams, and systems over the pool's strings; the fresh-process baseline is computed in two opposite orders and must agree with itself.",
    "Held on the histories explored (each replayable from its seed). The baseline process runs without contracts. Third-party objects (scipy/rdkit/networkx) are opaque to the fingerprint.",
    "DESIGN.md section 3, C10",
)
check(
    "C20",
    "totality/element oracle + metamorphic relations (random atom renumbering, random call histories mixing default and explicit parameter files) on the real typing entry points",
    "Generated molecules of all archetypes (typable chemistry and the whole fragment library) are typed: either every atom of the H-added molecule gets "
    "one parameter set of its own element's mass or the dedicated error with payload is raised; partial molecules are refused; renumbered copies, any "
    "history of default/explicit-file calls, and copies of the bundled files give the same assignment; a corpus of ~100 one-token small molecules and ions covering every element of the rule file goes through the same oracle.",
    "Held on the molecules typed. Renumbering replaces the RDKit molecule inside a deep copy of the MolGen (harness side).",
    "DESIGN.md section 3, C20",
)

ALL = [f"C{i:02d}" for i in range(1, 21)]


def main():
    man = {
        "version": 1,
        "setup_cmd": "./vcheck --setup",
        "hooks": {
            "guard": env.GUARD,
            "enable": "no source hook is needed: every monitor is installed from the harness (gbv.monitors) on class attributes, module globals and the "
            "user-supplied numpy Generator; GBIGSMILES_VERIF=1 is exported by ./vcheck and only switches the harness-side monitors on. "
            "Checks import gbigsmiles from /repo/src (PYTHONPATH), i.e. the current working tree; there is nothing to build.",
            "baseline_off_cmd": "cd /repo && env -u GBIGSMILES_VERIF /venv/bin/python -m pytest -ra -q -p no:cacheprovider --timeout=900 --continue-on-collection-errors -n 10",
            "source_commits": [],
            "add_only": True,
        },
        "engines": [
            {
                "name": "gbv",
                "path": "gbv/",
                "serves_properties": sorted(CHECKS),
                "kind_free_text": "runtime monitoring: generated/hostile workloads on the real library, harness-side contracts (icontract) and trace monitors, "
                "scripted numpy Generator for schedule enumeration, independent executable reference model as oracle",
            }
        ],
        "checks": [],
        "notes": "Verdicts are three-valued: exit 0 held on what was observed (KNOWN-FINDING lines for listed defects), exit 1 VIOLATION, exit 2 INCONCLUSIVE "
        "(monitor not reached / floor missed / watchdog; watchdogs count CPU time). Known findings: known_findings.json (read-only at run time). Every evidence file lists the library lines the workload reached per anchor file (sys.monitoring).",
        "not_applicable": [],
    }
    for pid in ALL:
        if pid in CHECKS:
            c = CHECKS[pid]
            man["checks"].append(
                {
                    "property_id": pid,
                    "quick_cmd": f"./vcheck {pid} --tier quick",
                    "thorough_cmd": f"./vcheck {pid} --tier thorough",
                    "evidence_file": f"evidence/{pid}.json",
                    "replay_cmd_template": f"./vcheck {pid} --replay {{path}}",
                    "engine": "gbv",
                    "level_claimed": {"category": "exploration", "text": c["text"], "design_ref": c["design_ref"]},
                    "level_note": c["note"],
                    "technique": c["technique"],
                }
            )
        else:
            man["not_applicable"].append({"property_id": pid, "reason": NOT_APPLICABLE.get(pid, "check not built yet in this round (planned: runtime monitoring, see DESIGN.md section 3); not claimed until it exists and is silent on the unchanged tree")})
    with open(os.path.join(env.VERIF, "MANIFEST.json"), "w") as fh:
        json.dump(man, fh, indent=1)
        fh.write("\n")
    print("MANIFEST.json written:", len(man["checks"]), "checks,", len(man["not_applicable"]), "not claimed")


if __name__ == "__main__":
    main()
