"""gbv -- runtime-monitoring framework for the G-BigSMILES properties C01..C20.

Everything in here runs the *real* library from /repo/src under generated workloads while
monitors written here observe every execution.  See /verif/DESIGN.md.
"""
