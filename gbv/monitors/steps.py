"""Logical step counting with sys.monitoring (3.12): LINE events inside /repo/src/gbigsmiles only.
Used for termination verdicts without wall clock: the callback raises StepBudgetExceeded when the
budget is used up."""
import contextlib
import sys

from .. import env

TOOL = 4  # free tool id
_state = {"count": 0, "budget": None, "active": False, "lines": set()}


class StepBudgetExceeded(BaseException):
    pass


def _on_line(code, line):
    fn = code.co_filename
    if "gbigsmiles" not in fn or not fn.startswith(env.REPO_SRC):
        return sys.monitoring.DISABLE
    _state["count"] += 1
    if _state["budget"] is not None and _state["count"] > _state["budget"]:
        _state["budget"] = None  # raise once
        raise StepBudgetExceeded()


@contextlib.contextmanager
def line_budget(budget=None):
    """counts executed lines of the library; yields a dict whose 'count' is final after the block"""
    mon = sys.monitoring
    if not _state["active"]:
        try:
            mon.use_tool_id(TOOL, "gbv-steps")
        except ValueError:
            pass
        mon.register_callback(TOOL, mon.events.LINE, _on_line)
        _state["active"] = True
    _state["count"] = 0
    _state["budget"] = budget
    mon.set_events(TOOL, mon.events.LINE)
    box = {"count": 0}
    try:
        yield box
    finally:
        mon.set_events(TOOL, 0)
        box["count"] = _state["count"]
        _state["budget"] = None
