"""Logical step counting with sys.monitoring (3.12): LINE events inside /repo/src/gbigsmiles only.
Used for termination verdicts without wall clock: the callback raises StepBudgetExceeded when the
budget is used up."""
import contextlib
import sys

from .. import env

TOOL = 4  # free tool id
_state = {"count": 0, "budget": None, "active": False, "lines": set()}


class StepBudgetExceeded(BaseException):
    pass


def _on_line(code, line):
    fn = code.co_filename
    if "gbigsmiles" not in fn or not fn.startswith(env.REPO_SRC):
        return sys.monitoring.DISABLE
    _state["count"] += 1
    if _state["budget"] is not None and _state["count"] > _state["budget"]:
        _state["budget"] = None  # raise once
        raise StepBudgetExceeded()


@contextlib.contextmanager
def line_budget(budget=None):
    """counts executed lines of the library; yields a dict whose 'count' is final after the block"""
    mon = sys.monitoring
    if not _state["active"]:
        try:
            mon.use_tool_id(TOOL, "gbv-steps")
        except ValueError:
            pass
        mon.register_callback(TOOL, mon.events.LINE, _on_line)
        _state["active"] = True
    _state["count"] = 0
    _state["budget"] = budget
    mon.set_events(TOOL, mon.events.LINE)
    box = {"count": 0}
    try:
        yield box
    finally:
        mon.set_events(TOOL, 0)
        box["count"] = _state["count"]
        _state["budget"] = None


# ------------------------------------------------------------------ line coverage of the library (evidence: what the workload reached) -----
COVER_TOOL = 5
_cover = {"on": False, "hits": set()}


def _on_cover_line(code, line):
    fn = code.co_filename
    if fn.startswith(env.REPO_SRC) and "gbigsmiles" in fn:
        _cover["hits"].add((fn, line))
    return sys.monitoring.DISABLE  # every location reports once: near-zero cost


def start_coverage():
    if _cover["on"]:
        return
    mon = sys.monitoring
    try:
        mon.use_tool_id(COVER_TOOL, "gbv-cover")
    except ValueError:
        return
    mon.register_callback(COVER_TOOL, mon.events.LINE, _on_cover_line)
    mon.set_events(COVER_TOOL, mon.events.LINE)
    _cover["on"] = True


def coverage_hits():
    """{relative file name: sorted line numbers executed so far in this process}"""
    import os

    out = {}
    for fn, line in _cover["hits"]:
        out.setdefault(os.path.relpath(fn, env.REPO), []).append(line)
    return {k: sorted(v) for k, v in out.items()}


def executable_lines(path):
    """line numbers that belong to function / method bodies of a source file (module-level statements run at import, before monitoring starts)"""
    with open(path) as fh:
        code = compile(fh.read(), path, "exec")
    lines = set()

    def walk(co, count):
        if count:
            for _, _, ln in co.co_lines():
                if ln is not None and ln != co.co_firstlineno:
                    lines.add(ln)
        for c in co.co_consts:
            if hasattr(c, "co_code"):
                walk(c, bool(c.co_flags & 0x1))  # CO_OPTIMIZED: functions, lambdas, comprehensions; class bodies (run at import) are not counted

    walk(code, False)
    return lines
