"""Harness-side contracts and event taps on the real library objects (no edit of /repo).

icontract decorators (snapshot / ensure / invariant) carry the conditions; every condition *records*
its finding in gbv.monitors.trace.violations and returns True, so the monitored execution is never
altered and one defect does not mask the next.  Evaluation counters are kept per contract: a check
whose deciding contract shows zero evaluations is INCONCLUSIVE."""
import functools

import icontract

from ..ref import compat as rc
from ..ref.token import atom_sig, order_of
from . import trace

_installed = False
_reentrant = [False]


class ContractBroken(Exception):
    """never raised in normal operation (conditions record and return True); kept as icontract's error="""


# ------------------------------------------------------------------ helpers ------------------
def mol_atoms(mol):
    return [atom_sig(a) for a in mol.GetAtoms()]


def mol_bonds(mol, shift=0):
    out = {}
    for b in mol.GetBonds():
        i, j = sorted((b.GetBeginAtomIdx() + shift, b.GetEndAtomIdx() + shift))
        out[(i, j)] = order_of(b)
    return out


def open_list(mg, ashift=0, nshift=0):
    return [(rc.lib_triple(bd), bd.atom_bonding_to + ashift, getattr(bd, "node_idx", 0) + nshift, float(bd.weight), None if bd.transitions is None else tuple(float(x) for x in bd.transitions)) for bd in mg.bond_descriptors]


def graph_edges(g, shift=0):
    out = {}
    for u, v, d in g.edges(data=True):
        a, b = sorted((u + shift, v + shift))
        out[(a, b)] = rc.lib_order(_BT(d.get("bond_type")))
    return out


class _BT:
    def __init__(self, bt):
        self.bond_type = bt


# ------------------------------------------------------------------ is_compatible ------------
def _post_is_compatible(self, other, result):
    if _reentrant[0]:
        return True
    trace.count("contract.is_compatible")
    _reentrant[0] = True
    try:
        want = rc.compat(rc.lib_triple(self), rc.lib_triple(other))
        if bool(result) != want:
            trace.violation("c03.insitu.is_compatible-differs", f"is_compatible({rc.lib_triple(self)}, {rc.lib_triple(other)}) = {result}, conjugation rule says {want}")
        else:
            back = bool(type(self).is_compatible.__wrapped__(other, self)) if hasattr(type(self).is_compatible, "__wrapped__") else want
            if back != want:
                trace.violation("c03.insitu.asymmetric", f"is_compatible not symmetric on {rc.lib_triple(self)}, {rc.lib_triple(other)}")
    finally:
        _reentrant[0] = False
    return True


# ------------------------------------------------------------------ MolGen.attach_other ------
def _snap_attach(self, self_bond_idx, other, other_bond_idx):
    trace.count("contract.attach_other.snapshot")
    s = {
        "n": self._mol.GetNumAtoms(),
        "atoms": mol_atoms(self._mol),
        "bonds": mol_bonds(self._mol),
        "oatoms": mol_atoms(other._mol),
        "obonds": mol_bonds(other._mol),
        "open": open_list(self),
        "oopen": open_list(other),
        "gn": len(self.graph),
        "ogn": len(other.graph),
        "gedges": graph_edges(self.graph),
        "ogedges": graph_edges(other.graph),
        "hist": list(getattr(self, "_gbv_hist", [])),
        "ohist": list(getattr(other, "_gbv_hist", [])),
        "valid_idx": 0 <= self_bond_idx < len(self.bond_descriptors) and 0 <= other_bond_idx < len(other.bond_descriptors),
        "mass": self.weight,
    }
    if s["valid_idx"]:
        # the very descriptor objects that are about to react: each may be consumed once ("still unused")
        s["bd_self"] = self.bond_descriptors[self_bond_idx]
        s["bd_other"] = other.bond_descriptors[other_bond_idx]
    return s


def _post_attach(self, self_bond_idx, other, other_bond_idx, result, OLD):
    trace.count("contract.attach_other.post")
    o = OLD.pre
    V = trace.violation
    if not o["valid_idx"]:
        V("c04.attach.accepted-invalid-index", f"attach_other({self_bond_idx}, ., {other_bond_idx}) returned although an index is out of range ({len(o['open'])}, {len(o['oopen'])} open)")
        return True
    d1, a1, n1, w1, t1 = o["open"][self_bond_idx]
    d2, a2, n2, w2, t2 = o["oopen"][other_bond_idx]
    N = o["n"]
    ev = {"d1": d1, "d2": d2, "a1": a1, "a2": a2 + N, "n_before": N, "n_other": len(o["oatoms"]), "order": d1[2], "node1": n1, "node2": n2 + o["gn"], "mass_before": o["mass"], "mass_after": result.weight, "oid": id(result), "n_open_after": len(result.bond_descriptors), "other_token": getattr(other, "_gbv_token", None), "open_before": [(x[0], x[3]) for x in o["open"]]}
    eid = trace.emit("attach", **ev)
    result._gbv_hist = o["hist"] + o["ohist"] + [eid]
    for which in ("bd_self", "bd_other"):
        bd = o.get(which)
        if bd is not None:
            if getattr(bd, "_gbv_used", False):
                V("c04.attach.descriptor-used-twice", f"the descriptor {rc.lib_triple(bd)} on atom {a1 if which == 'bd_self' else a2 + N} had already formed a bond and was bonded again", event=ev)
            bd._gbv_used = True
    if not (rc.compat(d1, d2) and rc.compat(d2, d1)):
        V("c04.attach.bonded-incompatible", f"attach_other bonded {d1} with {d2}, which the conjugation rule forbids", event=ev)
    # atoms: old self ++ old other
    atoms = mol_atoms(result._mol)
    if atoms != o["atoms"] + o["oatoms"]:
        V("c05.attach.atoms-not-concatenated", f"after attach the atom list is not old self ++ old other ({len(atoms)} vs {len(o['atoms'])}+{len(o['oatoms'])})", event=ev)
        return True
    # bonds: old, shifted other, exactly one new bond between the two descriptor atoms with the prescribed order
    bonds = mol_bonds(result._mol)
    want = dict(o["bonds"])
    for (i, j), od in o["obonds"].items():
        want[(i + N, j + N)] = od
    extra = {k: v for k, v in bonds.items() if k not in want or want[k] != v}
    missing = {k: v for k, v in want.items() if k not in bonds}
    newkey = tuple(sorted((a1, a2 + N)))
    if missing:
        V("c05.attach.bond-lost", f"attach lost or altered bonds {missing}", event=ev)
    if len(extra) != 1:
        V("c04.attach.not-exactly-one-new-bond", f"attach created {len(extra)} new/changed bonds: {extra}", event=ev)
    else:
        (k, od), = extra.items()
        if k != newkey:
            V("c04.attach.wrong-atoms", f"new bond joins atoms {k}, the descriptors sit on {newkey}", event=ev)
        if od != d1[2] or od != d2[2]:
            V("c04.attach.wrong-order", f"new bond has order {od}, the descriptors prescribe {d1[2]}", event=ev)
    # open descriptors: both reacted ones removed, no other; the other's shifted
    want_open = [x for k, x in enumerate(o["open"]) if k != self_bond_idx] + [(d, a + N, n + o["gn"], w, t) for k, (d, a, n, w, t) in enumerate(o["oopen"]) if k != other_bond_idx]
    got_open = open_list(result)
    if sorted(map(repr, got_open)) != sorted(map(repr, want_open)):
        V("c04.attach.open-list-wrong", f"open descriptors after attach {got_open}, expected {want_open}", event=ev)
    # residue graph: disjoint union + one edge with that bond type
    ge = graph_edges(result.graph)
    wge = dict(o["gedges"])
    for (i, j), od in o["ogedges"].items():
        wge[(i + o["gn"], j + o["gn"])] = od
    wge[tuple(sorted((n1, n2 + o["gn"])))] = d1[2]
    if len(result.graph) != o["gn"] + o["ogn"] or ge != wge:
        V("c05.attach.residue-graph-wrong", f"residue graph after attach has {len(result.graph)} nodes, edges {ge}; expected {o['gn'] + o['ogn']} nodes, edges {wge}", event=ev)
    return True


# ------------------------------------------------------------------ Mixture invariant --------
def _mixture_inv(self):
    trace.count("contract.mixture.invariant")
    a, r, s = self._absolute_mass, self._relative_mass, self._system_mass
    if a is not None and r is not None and s is not None:
        want = r / 100.0 * s
        if abs(a - want) > 1e-9 * max(abs(a), abs(want), 1e-300):
            trace.violation("c12.mixture-invariant", f"Mixture: absolute {a!r} != relative {r!r}/100 * system {s!r}")
    return True


# ------------------------------------------------------------------ install ------------------
def install():
    """Idempotent.  Wraps the real classes / module globals."""
    global _installed
    if _installed:
        return
    _installed = True
    import gbigsmiles
    import gbigsmiles.core as core
    import gbigsmiles.distribution as dist
    import gbigsmiles.mol_gen as mol_gen
    import gbigsmiles.stochastic as stochastic
    import gbigsmiles.token as token
    from gbigsmiles.bond import BondDescriptor
    from gbigsmiles.mixture import Mixture

    # --- BondDescriptor.is_compatible: postcondition = conjugation rule + symmetry
    raw = BondDescriptor.is_compatible
    dec = icontract.ensure(_post_is_compatible, error=ContractBroken)(raw)
    dec.__wrapped__ = raw
    BondDescriptor.is_compatible = dec

    # --- MolGen.attach_other: snapshot + postcondition
    MG = mol_gen.MolGen
    raw_attach = MG.attach_other
    MG.attach_other = icontract.snapshot(_snap_attach, name="pre")(icontract.ensure(_post_attach, error=ContractBroken)(raw_attach))

    # --- MolGen.__init__: fresh descriptor copies, one graph node, event
    raw_init = MG.__init__

    @functools.wraps(raw_init)
    def init(self, tok, *args, **kwargs):  # signature-transparent: optional parameters added by a refactoring pass through
        raw_init(self, tok, *args, **kwargs)
        trace.count("contract.molgen.init")
        shared = [bd for bd in self.bond_descriptors if any(bd is t for t in tok.bond_descriptors)]
        if shared:
            trace.violation("c10.molgen-shares-descriptor-with-token", f"MolGen({tok}) holds the token's own descriptor objects instead of copies")
        eid = trace.emit("new_residue", token=str(tok), tok_id=id(tok), res_id=getattr(tok, "res_id", None), n_atoms=self._mol.GetNumAtoms(), n_desc=len(self.bond_descriptors), mass=self.weight)
        self._gbv_hist = [eid]
        self._gbv_token = str(tok)
        if len(self.graph) != 1:
            trace.violation("c05.molgen-init-graph", f"new MolGen has {len(self.graph)} graph nodes")

    MG.__init__ = init

    # --- choose_compatible_weight, wherever it was imported by name
    raw_ccw = core.choose_compatible_weight

    @functools.wraps(raw_ccw)
    def ccw(bond_descriptors, bond, rng, *args, **kwargs):
        n0 = len(trace.events)
        idx = raw_ccw(bond_descriptors, bond, rng, *args, **kwargs)
        trace.count("contract.choose_compatible_weight")
        chosen = bond_descriptors[int(idx)]
        if bond is not None and not rc.compat(rc.lib_triple(bond), rc.lib_triple(chosen)):
            trace.violation("c04.choose-incompatible", f"choose_compatible_weight returned {rc.lib_triple(chosen)} for {rc.lib_triple(bond)}")
        ce = [e for e in trace.events[n0:] if e["k"] == "choice"]
        info = {"n": len(bond_descriptors), "bond": None if bond is None else rc.lib_triple(bond), "idx": int(idx), "cands": [(rc.lib_triple(b), float(b.weight), None if b.transitions is None else [float(x) for x in b.transitions]) for b in bond_descriptors]}
        if ce:
            e = ce[-1]
            info["p_taken"] = None if e["p"] is None or e["pos"] is None else e["p"][e["pos"]]
            info["p"] = e["p"]
            if info["p_taken"] is not None and info["p_taken"] <= 0:
                trace.violation("c08.zero-probability-option-taken", f"an option with probability {info['p_taken']} was taken: {info}")
        trace.emit("ccw", **info)
        return idx

    for mod in (core, token, stochastic):
        if getattr(mod, "choose_compatible_weight", None) is raw_ccw:
            mod.choose_compatible_weight = ccw

    # --- draws
    def wrap_draw(cls):
        raw_draw = cls.__dict__.get("draw_mw")
        if raw_draw is None:
            return

        @functools.wraps(raw_draw)
        def draw_mw(self, *args, **kwargs):
            trace.count("contract.draw_mw")
            try:
                v = raw_draw(self, *args, **kwargs)
            except BaseException as exc:
                trace.emit("draw_exc", dist=self.generate_string(True), exc=f"{type(exc).__name__}: {exc}"[:200])
                raise
            trace.emit("draw", dist=self.generate_string(True), value=float(v))
            return v

        cls.draw_mw = draw_mw

    for cls in (dist.Distribution, dist.FlorySchulz, dist.SchulzZimm, dist.LogNormal, dist.Gauss, dist.Uniform, dist.Poisson):
        wrap_draw(cls)

    # --- element generate enter / exit
    def wrap_generate(cls, kind):
        raw_gen = cls.__dict__.get("generate")
        if raw_gen is None:
            return

        @functools.wraps(raw_gen)
        def generate(self, *args, **kwargs):
            prefix = kwargs.get("prefix", args[0] if args else None)
            trace.emit("enter", kind=kind, obj=id(self), text=(self.generate_string(True) if kind != "molecule" else None), prefix_open=None if prefix is None else open_list(prefix), prefix_mass=None if prefix is None else prefix.weight)
            try:
                out = raw_gen(self, *args, **kwargs)
            except BaseException as exc:
                trace.emit("exit", kind=kind, obj=id(self), exc=f"{type(exc).__name__}: {exc}"[:300])
                raise
            trace.emit("exit", kind=kind, obj=id(self), exc=None, hist=list(getattr(out, "_gbv_hist", [])) if out is not None else None, mass=None if out is None else out.weight)
            return out

        cls.generate = generate

    wrap_generate(gbigsmiles.Stochastic, "stochastic")
    wrap_generate(gbigsmiles.SmilesToken, "token")
    wrap_generate(gbigsmiles.Molecule, "molecule")

    # --- Mixture invariant
    gbigsmiles.mixture.Mixture = icontract.invariant(_mixture_inv, error=ContractBroken)(Mixture)
    for mod in (gbigsmiles, gbigsmiles.molecule, gbigsmiles.system):
        if getattr(mod, "Mixture", None) is Mixture:
            mod.Mixture = gbigsmiles.mixture.Mixture
