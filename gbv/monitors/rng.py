"""Generators handed to the library: a spy (records and validates every call) and a scripted one
(enumerates choice sequences, forces distribution quantiles)."""
import math

import numpy as np

from . import trace

TINY = 1e-100  # options below this probability are treated as absent (the atom-graph generator adds 1e-300 to every weight)


def _norm_choice_args(a, p):
    n = int(a) if isinstance(a, (int, np.integer)) else len(a)
    items = list(range(n)) if isinstance(a, (int, np.integer)) else list(a)
    pv = None if p is None else [float(x) for x in np.asarray(p, dtype=float).ravel()]
    return n, items, pv


def check_p(pv, n):
    """p must be a probability vector over the n options"""
    if pv is None:
        return None
    if len(pv) != n:
        return f"len(p)={len(pv)} for {n} options"
    if any((not math.isfinite(x)) or x < 0 for x in pv):
        return f"p has negative or non-finite entries: {pv}"
    if abs(sum(pv) - 1.0) > 1e-9:
        return f"sum(p)={sum(pv)!r}"
    return None


class SpyRNG(np.random.Generator):
    """A real PCG64 generator that logs every call made through the Generator interface."""

    def __init__(self, seed):
        super().__init__(np.random.PCG64(seed))
        self.seed = seed

    def __deepcopy__(self, memo):
        return self

    def choice(self, a, size=None, replace=True, p=None, axis=0, shuffle=True):
        n, items, pv = _norm_choice_args(a, p)
        bad = check_p(pv, n) if n else None
        r = super().choice(a, size=size, replace=replace, p=p, axis=axis, shuffle=shuffle)
        try:
            pos = items.index(r) if size is None else None
        except ValueError:
            pos = None
        trace.emit("choice", n=n, p=pv, pos=pos, result=(int(r) if size is None and isinstance(r, (int, np.integer)) else None), bad=bad)
        return r

    def _log(self, kind, r, args):
        trace.emit("rand", kind=kind, value=(float(r) if np.ndim(r) == 0 else [float(x) for x in np.ravel(r)][:4]), args=[float(x) if isinstance(x, (int, float, np.floating, np.integer)) else str(x) for x in args][:3])
        return r

    def uniform(self, *a, **k):
        return self._log("uniform", super().uniform(*a, **k), a)

    def random(self, *a, **k):
        return self._log("random", super().random(*a, **k), a)

    def normal(self, *a, **k):
        return self._log("normal", super().normal(*a, **k), a)

    def standard_normal(self, *a, **k):
        return self._log("standard_normal", super().standard_normal(*a, **k), a)

    def poisson(self, *a, **k):
        return self._log("poisson", super().poisson(*a, **k), a)

    def integers(self, *a, **k):
        return self._log("integers", super().integers(*a, **k), a)


class FaultRNG(SpyRNG):
    """Fault injection at the generator interface: the k-th variate request (uniform / random / normal ...) raises the error that scipy's generic
    discrete quantile search raises sporadically in the library's custom distributions ('updating stopped, endless loop'), so that a generation
    breaks off mid-way at a chosen point instead of once in a few hundred draws."""

    def __init__(self, seed, fail_at, count_choices=False):
        super().__init__(seed)
        self.fail_at = fail_at
        self.count_choices = count_choices  # False: only variate requests (the draws of a distribution) are counted
        self.requests = 0
        self.fired = False

    def _log(self, kind, r, args):
        self.requests += 1
        if self.requests == self.fail_at:
            self.fired = True
            raise RuntimeError("updating stopped, endless loop (injected by the harness)")
        return super()._log(kind, r, args)

    def choice(self, *a, **k):
        if not self.count_choices:
            return super().choice(*a, **k)
        self.requests += 1
        if self.requests == self.fail_at:
            self.fired = True
            raise RuntimeError("updating stopped, endless loop (injected by the harness)")
        return super().choice(*a, **k)


class ScriptExhausted(Exception):
    pass


class ScriptedRNG(np.random.Generator):
    """choice() ignores the bit stream and follows `script` (ranks over the options with p > TINY); beyond
    the script it takes rank 0.  trace_ranks records (rank taken, number of options) per decision, prob the
    path probability.  uniform/random return the scripted quantile q, standard_normal Phi^-1(q)."""

    def __init__(self, script=(), quantiles=None, default_q=0.5, seed=0, wrap=False):
        super().__init__(np.random.PCG64(seed))
        self.wrap = wrap  # ranks are taken modulo the number of options (random but reproducible decisions)
        self.script = list(script)
        self.pos = 0
        self.trace_ranks = []
        self.prob = 1.0
        self.quantiles = list(quantiles or [])
        self.qpos = 0
        self.default_q = default_q
        self.removed_mass = 0.0

    def __deepcopy__(self, memo):
        return self

    def choice(self, a, size=None, replace=True, p=None, axis=0, shuffle=True):
        if size is not None:
            raise NotImplementedError("scripted choice with size")
        n, items, pv = _norm_choice_args(a, p)
        if n == 0:
            raise ValueError("a cannot be empty")  # numpy's own behaviour, which the library relies on
        if pv is None:
            pv = [1.0 / n] * n
        bad = check_p(pv, n)
        if bad and ("negative" in bad or "non-finite" in bad or "len" in bad):
            raise ValueError("probabilities are not non-negative / do not match")  # numpy's behaviour
        if bad:
            raise ValueError("probabilities do not sum to 1")
        opts = [i for i, x in enumerate(pv) if x > TINY]
        self.removed_mass += sum(x for x in pv if x <= TINY)
        k = self.script[self.pos] if self.pos < len(self.script) else 0
        self.pos += 1
        if self.wrap:
            k = k % len(opts)
        if k >= len(opts):
            raise ScriptExhausted(f"rank {k} of {len(opts)}")
        self.trace_ranks.append((k, len(opts)))
        self.prob *= pv[opts[k]]
        r = items[opts[k]]
        trace.emit("choice", n=n, p=pv, pos=opts[k], result=(int(r) if isinstance(r, (int, np.integer)) else None), bad=None)
        return r

    def _q(self):
        q = self.quantiles[self.qpos] if self.qpos < len(self.quantiles) else self.default_q
        self.qpos += 1
        return q

    def uniform(self, low=0.0, high=1.0, size=None):
        q = self._q()
        v = low + (high - low) * q
        trace.emit("rand", kind="uniform", value=float(v), q=q)
        return np.full(size, v) if size is not None else v

    def random(self, size=None, dtype=np.float64, out=None):
        q = self._q()
        trace.emit("rand", kind="random", value=float(q), q=q)
        return np.full(size, q) if size is not None else q

    def standard_normal(self, size=None, dtype=np.float64, out=None):
        from scipy.special import ndtri

        q = self._q()
        v = float(ndtri(q))
        trace.emit("rand", kind="standard_normal", value=v, q=q)
        return np.full(size, v) if size is not None else v

    def normal(self, loc=0.0, scale=1.0, size=None):
        from scipy.special import ndtri

        q = self._q()
        v = loc + scale * float(ndtri(q))
        trace.emit("rand", kind="normal", value=float(v), q=q)
        return np.full(size, v) if size is not None else v


def enumerate_paths(run, limit=20000, quantiles=None, default_q=0.5):
    """Depth-first enumeration of *all* choice sequences of `run(rng)`.  Yields (rng, outcome) per path
    where outcome is run's return value or the exception it raised.  Stops after `limit` paths (the
    caller must check `complete`)."""
    stack = [[]]
    n = 0
    state = {"complete": True, "paths": 0}
    while stack:
        script = stack.pop()
        rng = ScriptedRNG(script, quantiles=quantiles, default_q=default_q)
        try:
            out = ("ok", run(rng))
        except ScriptExhausted:
            raise
        except Exception as exc:  # library exceptions are data for the oracle
            out = ("exc", exc)
        n += 1
        for i in range(len(script), len(rng.trace_ranks)):
            for alt in range(1, rng.trace_ranks[i][1]):
                stack.append([t[0] for t in rng.trace_ranks[:i]] + [alt])
        yield rng, out
        if n >= limit and stack:
            state["complete"] = False
            break
    state["paths"] = n
    enumerate_paths.last = state
