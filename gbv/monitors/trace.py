"""Event log: one list per top-level call.  Monitors append; offline checkers consume."""
events = []
violations = []  # contract violations are *also* appended here, so a swallowed exception cannot hide one
counters = {}
enabled = True


def reset():
    del events[:]
    del violations[:]


def emit(_kind, **kw):
    if enabled:
        kw["k"] = _kind
        events.append(kw)
        return len(events) - 1
    return -1


def count(name, n=1):
    counters[name] = counters.get(name, 0) + n


def violation(cls, msg, **kw):
    d = {"cls": cls, "msg": msg}
    d.update(kw)
    violations.append(d)
    return d


def take_counters():
    c = dict(counters)
    counters.clear()
    return c
