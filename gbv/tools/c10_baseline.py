"""Fresh-process baseline for C10: python -m gbv.tools.c10_baseline <in.json> <out.json>
in: {"items": [[text, seed], ...]}   out: {"text|seed": {...}}.  No contracts are installed here."""
import hashlib
import json
import sys


def digest(events):
    h = hashlib.sha1()
    for e in events:
        if e["k"] == "choice":
            h.update(repr((e["n"], e["pos"], None if e["p"] is None else [round(x, 12) for x in e["p"]])).encode())
        elif e["k"] == "rand":
            h.update(repr((e["kind"], e["value"])).encode())
    return h.hexdigest()


def observe(obj, seed):
    from ..monitors import trace
    from ..monitors.rng import SpyRNG
    from ..util import StepTimeout, time_limit

    trace.reset()
    try:
        with time_limit(15):
            g = obj.generate(rng=SpyRNG(seed))
        return {"status": "ok", "smiles": g.smiles, "weight": g.weight, "log": digest(trace.events), "fully": bool(g.fully_generated)}
    except StepTimeout:
        return {"status": "watchdog"}
    except Exception as exc:
        return {"status": "exc", "exc": type(exc).__name__, "log": digest(trace.events)}


def observe_system(S, seed, limit=60):
    """single generation and the first `limit` molecules of the ensemble, both with a freshly seeded generator"""
    from ..monitors.rng import SpyRNG
    from ..util import StepTimeout, time_limit

    rec = {"str": str(S), "noext": S.generate_string(False), "generable": bool(S.generable)}
    try:
        with time_limit(30):
            g = S.generate(rng=SpyRNG(seed))
        rec["single"] = ["ok", g.smiles, g.weight]
    except StepTimeout:
        rec["single"] = ["watchdog"]
    except Exception as exc:
        rec["single"] = ["exc", type(exc).__name__]
    seq = []
    try:
        with time_limit(60):
            for k, g in enumerate(type(S).generator.fget(S, SpyRNG(seed))):
                seq.append([g.smiles, g.weight])
                if k + 1 >= limit:
                    break
        rec["ensemble"] = ["ok", seq]
    except StepTimeout:
        rec["ensemble"] = ["watchdog"]
    except Exception as exc:
        rec["ensemble"] = ["exc", type(exc).__name__, seq]
    return rec


def main():
    from .. import env

    env.bootstrap()
    import gbigsmiles

    spec = json.load(open(sys.argv[1]))
    out = {}
    objs = {}
    for item in spec["items"]:
        text, seed = item[0], item[1]
        if len(item) > 2 and item[2] == "system":
            out[f"{text}|{seed}"] = observe_system(gbigsmiles.System(text), seed)
            continue
        if text not in objs:
            objs[text] = gbigsmiles.Molecule(text)  # one fresh object per string; each (text, seed) on a fresh parse below
        M = gbigsmiles.Molecule(text)
        import time

        t0 = time.time()
        rec = observe(M, seed)
        rec["seconds"] = time.time() - t0
        rec["str"] = str(M)
        rec["noext"] = M.generate_string(False)
        rec["generable"] = bool(M.generable)
        out[f"{text}|{seed}"] = rec
    json.dump(out, open(sys.argv[2], "w"))


if __name__ == "__main__":
    main()
