"""Fresh-process baseline for C10: python -m gbv.tools.c10_baseline <in.json> <out.json>
in: {"items": [[text, seed], ...]}   out: {"text|seed": {...}}.  No contracts are installed here."""
import hashlib
import json
import sys


def digest(events):
    h = hashlib.sha1()
    for e in events:
        if e["k"] == "choice":
            h.update(repr((e["n"], e["pos"], None if e["p"] is None else [round(x, 12) for x in e["p"]])).encode())
        elif e["k"] == "rand":
            h.update(repr((e["kind"], e["value"])).encode())
    return h.hexdigest()


def observe(obj, seed):
    from ..monitors import trace
    from ..monitors.rng import SpyRNG
    from ..util import StepTimeout, time_limit

    trace.reset()
    try:
        with time_limit(15):
            g = obj.generate(rng=SpyRNG(seed))
        return {"status": "ok", "smiles": g.smiles, "weight": g.weight, "log": digest(trace.events), "fully": bool(g.fully_generated)}
    except StepTimeout:
        return {"status": "watchdog"}
    except Exception as exc:
        return {"status": "exc", "exc": type(exc).__name__, "log": digest(trace.events)}


def main():
    from .. import env

    env.bootstrap()
    import gbigsmiles

    spec = json.load(open(sys.argv[1]))
    out = {}
    objs = {}
    for text, seed in spec["items"]:
        if text not in objs:
            objs[text] = gbigsmiles.Molecule(text)  # one fresh object per string; each (text, seed) on a fresh parse below
        M = gbigsmiles.Molecule(text)
        import time

        t0 = time.time()
        rec = observe(M, seed)
        rec["seconds"] = time.time() - t0
        rec["str"] = str(M)
        rec["noext"] = M.generate_string(False)
        rec["generable"] = bool(M.generable)
        out[f"{text}|{seed}"] = rec
    json.dump(out, open(sys.argv[2], "w"))


if __name__ == "__main__":
    main()
