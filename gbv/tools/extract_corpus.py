"""Extract the documented strings (README.md, SI.md, play.py, tests) into /verif/corpus.json.
python -m gbv.tools.extract_corpus"""
import ast
import json
import os
import re

from .. import env


def candidates():
    out = []
    repo = env.REPO
    for rel in ["play.py"] + [os.path.join("tests", f) for f in sorted(os.listdir(os.path.join(repo, "tests"))) if f.endswith(".py")]:
        try:
            tree = ast.parse(open(os.path.join(repo, rel)).read())
        except (OSError, SyntaxError):
            continue
        for node in ast.walk(tree):
            if isinstance(node, ast.Constant) and isinstance(node.value, str):
                out.append((rel, node.value))
    for rel in ["README.md", "SI.md"]:
        try:
            txt = open(os.path.join(repo, rel)).read()
        except OSError:
            continue
        for m in re.finditer(r"`([^`\n]+)`", txt):
            out.append((rel, m.group(1)))
        for m in re.finditer(r"\"([^\"\n]+)\"", txt):
            out.append((rel, m.group(1)))
        for m in re.finditer(r"'([^'\n]+)'", txt):
            out.append((rel, m.group(1)))
    seen, res = set(), []
    for src, s in out:
        s = s.strip()
        if not s or s in seen or len(s) > 2000 or "\n" in s:
            continue
        if not re.search(r"[\[{]", s) and not re.search(r"\.\|", s):
            continue
        if re.search(r"[\s](the|is|and|of|to)[\s]", s):
            continue
        seen.add(s)
        res.append({"source": src, "text": s})
    return res


def main():
    env.bootstrap()
    import gbigsmiles

    ctors = {
        "bond": lambda t: gbigsmiles.BondDescriptor(t, 0, "", 0),
        "token": lambda t: gbigsmiles.SmilesToken(t, 0, 0),
        "stochastic": lambda t: gbigsmiles.Stochastic(t, 0),
        "molecule": lambda t: gbigsmiles.Molecule(t),
        "system": lambda t: gbigsmiles.System(t),
    }
    import signal

    def _to(*a):
        raise TimeoutError()

    signal.signal(signal.SIGALRM, _to)
    res = []
    for c in candidates():
        ok = []
        for name, f in ctors.items():
            signal.alarm(5)
            try:
                f(c["text"])
                ok.append(name)
            except BaseException:
                pass
            finally:
                signal.alarm(0)
        if ok:
            res.append(c)
    with open(os.path.join(env.VERIF, "corpus.json"), "w") as fh:
        json.dump(res, fh, indent=0)
    print(len(res), "documented strings kept")


if __name__ == "__main__":
    main()
