"""Shared generation workloads: build an input from the structured generator, run the real library
under the monitors, hand back everything that was observed."""
import random

import numpy as np

from . import gen
from .ast import StochAst
from .monitors import contracts, trace
from .monitors.rng import SpyRNG
from .ref import model
from .util import StepTimeout, time_limit


class BudgetExceeded(BaseException):
    """logical step budget (number of residues created in one generation) exceeded"""


_budget = {"left": None}


def install():
    contracts.install()
    import gbigsmiles.mol_gen as mg

    if getattr(mg.MolGen, "_gbv_budget", False):
        return
    raw = mg.MolGen.__init__

    def init(self, tok, *args, **kwargs):
        if _budget["left"] is not None:
            _budget["left"] -= 1
            if _budget["left"] < 0:
                raise BudgetExceeded()
        raw(self, tok, *args, **kwargs)

    mg.MolGen.__init__ = init
    mg.MolGen._gbv_budget = True


class Subject:
    """one generated input with everything the oracles need"""

    def __init__(self, seed, arch=None, small=False, families=None, mean_units=None, forced=None, form=None, typable=False, sp=None, respell=False, ast=None, targets=None):
        rng = random.Random(seed)
        self.seed = seed
        if ast is not None:
            self.ast = ast
        elif arch == "deadend":
            self.ast = gen.arch_deadend(gen.Ctx(rng, small=small, form=form), families, mean_units)
        elif arch == "twinends":
            self.ast = gen.arch_twinends(gen.Ctx(rng, small=small, form=form), families, mean_units)
        elif arch == "listblock":
            self.ast = gen.arch_listblock(gen.Ctx(rng, small=small, form=form), families, mean_units)
        elif arch == "hostile_h":
            self.ast = gen.arch_hostile_h(gen.Ctx(rng, small=True, form=form), families, mean_units)
        else:
            self.ast = gen.make_molecule(rng, arch, small=small, families=families, mean_units=mean_units, form=form, typable=typable, respell=respell)
        self.hostile_h = arch == "hostile_h"
        self.targets = dict(targets or {})
        if forced is not None and ast is None:
            for k, e in enumerate(self.ast.elements):
                if isinstance(e, StochAst):
                    um = sum(gen.unit_mass(u) for u in e.repeats) / len(e.repeats)
                    T = round(um * rng.choice(forced), 1)
                    e.dist = gen.forced_dist(T)
                    self.targets[k] = T
        self.sp = rng.randrange(256) if sp is None else sp
        self.text = self.ast.to_text(True, self.sp)
        self.cm = model.compile_molecule(self.ast)
        self.closable, self.why = model.closable(self.cm)
        self.first_may_be_end = False
        self.lib = None

    def parse(self):
        import gbigsmiles

        with time_limit(30):
            self.lib = gbigsmiles.Molecule(self.text)
        return self.lib

    def residue_budget(self):
        total = 50
        for e in self.ast.elements:
            if isinstance(e, StochAst) and e.dist is not None:
                mn = min(max(gen.unit_mass(u), 1.0) for u in e.repeats)
                p = e.dist.params
                hi = {"gauss": lambda: p[0] + 8 * p[1], "uniform": lambda: p[1], "log_normal": lambda: p[0] * 60, "poisson": lambda: p[0] * 3 + 50, "schulz_zimm": lambda: p[0] * 60, "flory_schulz": lambda: 60.0 / p[0]}[e.dist.family]()
                total += 40 * (max(hi, 0) / mn + 10)
        return int(total)


def observe_generation(obj, rng, budget=None, limit_s=30, **kw):
    """Run obj.generate(rng=rng) under the monitors.  Returns dict(status, mol, exc, events, violations)."""
    trace.reset()
    _budget["left"] = budget
    status, g, exc = "ok", None, None
    try:
        with time_limit(limit_s):
            g = obj.generate(rng=rng, **kw)
    except StepTimeout:
        status = "watchdog"
    except BudgetExceeded:
        status = "budget"
    except Exception as e:  # library exceptions are data for the oracle
        status, exc = "exc", e
    finally:
        _budget["left"] = None
    events = list(trace.events)
    viol = list(trace.violations)
    draw_failed = any(e["k"] == "draw_exc" for e in events)
    return {"status": status, "mol": g, "exc": exc, "events": events, "violations": viol, "draw_failed": draw_failed}


def spy(seed):
    return SpyRNG(seed)
