"""The BigSMILES conjugation rule, written from the statement of C03 (shares no code with /repo).

A descriptor is described by (symbol, id, order): symbol in {'', '$', '<', '>'}; id is None or an
int ("no id counts as an id of its own"); order is the bond order it would form."""

ORDER_OF_PREFIX = {"": 1.0, "-": 1.0, "=": 2.0, "#": 3.0, ":": 1.5}
CONJ = {"$": "$", "<": ">", ">": "<"}


def compat(a, b):
    """a, b: (symbol, id, order).  True iff the two descriptors may bond."""
    sa, ia, oa = a
    sb, ib, ob = b
    if sa == "" or sb == "":
        return False
    if ia != ib:
        return False
    if oa != ob:
        return False
    return CONJ.get(sa) == sb


def conj(sym):
    return CONJ[sym]


# ---- reading the same triple off a library object through its public attributes only -------
def lib_order(bd):
    import rdkit.Chem.rdchem as rc

    return {
        rc.BondType.SINGLE: 1.0,
        rc.BondType.DOUBLE: 2.0,
        rc.BondType.TRIPLE: 3.0,
        rc.BondType.ONEANDAHALF: 1.5,
        rc.BondType.AROMATIC: 1.5,
        rc.BondType.QUADRUPLE: 4.0,
        rc.BondType.UNSPECIFIED: 0.0,
    }.get(bd.bond_type, -1.0)


def lib_triple(bd):
    i = bd.descriptor_id
    return (bd.descriptor, None if i == "" or i is None else int(i), lib_order(bd))
