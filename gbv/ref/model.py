"""Reference model of what a molecule description denotes and of the documented generation
algorithm (README "generation of stochastic objects", Molecule left-to-right hand-over), on an
abstract state: a tree of residue instances with open descriptors.  Shares no code with /repo.

 compile_molecule(MolAst)        -> CMol   (documented descriptor insertions applied)
 law.*                           -> the selection law of C08 as pure functions
 closable(CMol)                  -> (bool, reason): conservative well-posedness analysis (C06)
 exact_distribution(CMol, T)     -> {canonical smiles: probability} for forced targets T
"""
import collections
from dataclasses import dataclass, field
from typing import List, Optional

from ..ast import MolAst, StochAst, TokenAst
from .compat import compat
from .token import merged, read_token


class Stuck(Exception):
    """the model reaches a point where the documented algorithm has no lawful option (ill-posed input)"""


@dataclass(frozen=True)
class CDesc:
    sym: str
    id: Optional[int]
    order: float
    weight: float
    transitions: Optional[tuple]
    atom: int
    idx: int  # position among the token's descriptors

    @property
    def triple(self):
        return (self.sym, self.id, self.order)

    @property
    def bare(self):
        return "[" + self.sym + ("" if self.id is None else str(self.id)) + "]"


@dataclass
class CTok:
    text: str
    reading: object
    descs: List[CDesc]
    kind: str  # token | repeat | end
    elem: int
    tidx: int
    mass: float

    @property
    def key(self):
        return (self.elem, self.kind, self.tidx)


@dataclass
class CStoch:
    elem: int
    left: CDesc
    right: CDesc
    repeats: List[CTok]
    ends: List[CTok]
    dist: object

    def all_descs(self):
        out = []
        for t in self.repeats + self.ends:
            for d in t.descs:
                out.append((t, d))
        return out


@dataclass
class CMol:
    elements: list
    ast: MolAst = None

    def tok(self, key):
        e = self.elements[key[0]]
        if isinstance(e, CTok):
            return e
        return (e.repeats if key[1] == "repeat" else e.ends)[key[2]]


def _cdesc(d, atom, idx):
    tr = d.transitions
    return CDesc(d.sym, d.id, d.order, d.eff_weight, None if tr is None else tuple(float(x) for x in tr), atom, idx)


def _ctok(text, kind, elem, tidx, extra_weights=None):
    r = merged(read_token(text))  # generation-side oracles use the chemical reading (explicit H in a multi-atom token = H count of its neighbour)
    from ..ast import Desc

    descs = []
    for k, dt in enumerate(r.desc_texts):
        descs.append(_parse_desc_text(dt, r.desc_atom[k], r.desc_order[k], k))
    return CTok(text, r, descs, kind, elem, tidx, r.heavy_mass)


def _parse_desc_text(dt, atom, order, idx):
    """tiny reader for the descriptor texts the *printer* produced (the model reads its own notation)"""
    import re

    m = re.match(r"^\[([$<>])\s*([0-9]*)\s*(?:\|([^|]*)\|)?\s*\]$", dt)
    if not m:
        raise ValueError(f"model cannot read descriptor {dt!r}")
    sym, i, w = m.group(1), m.group(2), m.group(3)
    weight, tr = 1.0, None
    if w is not None:
        vals = [float(x) for x in w.split()]
        if len(vals) == 1:
            weight = vals[0]
        else:
            tr = tuple(vals)
            weight = float(sum(vals))
    return CDesc(sym, int(i) if i else None, order, weight, tr, atom, idx)


def compile_molecule(m: MolAst) -> CMol:
    from ..oracles.parse import expected_insertions

    ins = expected_insertions(m)
    els = []
    for i, e in enumerate(m.elements):
        if isinstance(e, TokenAst):
            front, back = ins[i]
            text = e.to_text(True, 0, True)
            full = "".join(f"[{s}{'' if d is None else d}]" for s, d, w, o in front) + text + "".join(f"[{s}{'' if d is None else d}|0|]" for s, d, w, o in back)
            els.append(_ctok(full, "token", i, 0))
        else:
            reps = [_ctok(t.to_text(True, 0, True), "repeat", i, k) for k, t in enumerate(e.repeats)]
            ends = [_ctok(t.to_text(True, 0, True), "end", i, k) for k, t in enumerate(e.ends)]
            els.append(CStoch(i, _cdesc(e.left, -1, -1), _cdesc(e.right, -1, -1), reps, ends, e.dist))
    return CMol(els, m)


# ---------------------------------------------------------------------------- the law --------
def weighted(cands):
    """cands: [(item, weight)] -> [(item, probability)] in proportion to weight; all weights equal
    (including all zero) means uniform; probability-zero options are dropped."""
    if not cands:
        raise Stuck("no candidate")
    ws = [float(w) for _, w in cands]
    if any(w < 0 for w in ws):
        raise Stuck("negative weight")
    if all(w == ws[0] for w in ws):
        return [(it, 1.0 / len(cands)) for it, _ in cands]
    tot = sum(ws)
    return [(it, w / tot) for (it, _), w in zip(cands, ws) if w > 0]


# ---------------------------------------------------------------------- abstract state -------
# instances: tuple of token keys in creation order
# bonds:     tuple of (inst_a, desc_idx_a, inst_b, desc_idx_b)
# opens:     tuple of (inst, desc_idx, weight, transitions)   (weight/transitions may be overridden by a left terminal)
State = collections.namedtuple("State", "instances bonds opens")


def _open_desc(cm, st, o):
    inst, di, w, tr = o
    d = cm.tok(st.instances[inst]).descs[di]
    return d


WORK = {"left": None}


class ModelBudget(Exception):
    """the model's own work budget is exhausted (instance too large for exact enumeration)"""


def _attach(cm, st, o, tok, j):
    """bond open descriptor o with descriptor j of a new instance of tok"""
    if WORK["left"] is not None:
        WORK["left"] -= 1
        if WORK["left"] < 0:
            raise ModelBudget()
    inst = len(st.instances)
    new_opens = tuple(x for x in st.opens if x is not o) + tuple((inst, d.idx, d.weight, d.transitions) for d in tok.descs if d.idx != j)
    od = _open_desc(cm, st, o)
    if not compat(od.triple, tok.descs[j].triple):
        raise Stuck(f"attach of incompatible descriptors {od.triple} {tok.descs[j].triple}")
    return State(st.instances + (tok.key,), st.bonds + ((o[0], o[1], inst, j),), new_opens)


def mass_of(cm, st):
    return sum(cm.tok(k).mass for k in st.instances)


def _pick_open(st):
    return weighted([(o, o[2]) for o in st.opens])


def growth_options(cm, S: CStoch, st):
    """one growth step: [(new state, probability)]"""
    out = []
    for o, po in _pick_open(st):
        od = _open_desc(cm, st, o)
        if o[3] is not None:
            alld = S.all_descs()
            if len(o[3]) != len(alld):
                raise Stuck("transition list length")
            tot = float(sum(o[3]))
            for (tok, d), t in zip(alld, o[3]):
                if t > 0:
                    out.append((_attach(cm, st, o, tok, d.idx), po * t / tot))
        else:
            cands = [((tok, d), d.weight) for tok in S.repeats for d in tok.descs if compat(od.triple, d.triple)]
            for (tok, d), p in weighted(cands):
                out.append((_attach(cm, st, o, tok, d.idx), po * p))
    return out


def finalize_options(cm, S: CStoch, st):
    """reserve one open descriptor for the right terminal, cap all others: [(state, probability)]"""
    results = []
    if S.right.sym:
        rtype = (S.right.sym, S.right.id, 1.0)
        cands = [(o, o[2]) for o in st.opens if compat(rtype, _open_desc(cm, st, o).triple)]
        starts = [(State(st.instances, st.bonds, tuple(x for x in st.opens if x is not o)), o, p) for o, p in weighted(cands)]
    else:
        starts = [(st, None, 1.0)]
    for st0, reserved, p0 in starts:
        level = [(st0, p0)]
        while level:
            nxt = []
            for cur, p in level:
                if not cur.opens:
                    final = cur if reserved is None else State(cur.instances, cur.bonds, (reserved,))
                    results.append((final, p))
                    continue
                for o, po in _pick_open(cur):
                    od = _open_desc(cm, cur, o)
                    cands = [((tok, d), d.weight) for tok in S.ends for d in tok.descs if compat(od.triple, d.triple)]
                    for (tok, d), pp in weighted(cands):
                        nxt.append((_attach(cm, cur, o, tok, d.idx), p * po * pp))
            level = merge_iso(nxt)
    return merge_iso(results)


def state_key(st):
    """canonical form of an abstract state up to renumbering of instances (rooted at instance 0, which is
    always the first residue created).  Isomorphic states behave identically under the law, so the
    enumerator merges them."""
    adj = collections.defaultdict(list)
    for a, da, b, db in st.bonds:
        adj[a].append((da, db, b))
        adj[b].append((db, da, a))
    opens = collections.defaultdict(list)
    for inst, di, w, tr in st.opens:
        opens[inst].append((di, w, tr))

    def canon(n, parent):
        kids = sorted(((da, db, canon(c, n)) for da, db, c in adj[n] if c != parent), key=repr)
        return (st.instances[n], tuple(kids), tuple(sorted(opens.get(n, ()), key=repr)))

    return canon(0, -1)


def merge_iso(pairs):
    acc = collections.OrderedDict()
    for st, p in pairs:
        k = state_key(st)
        if k in acc:
            acc[k][1] += p
        else:
            acc[k] = [st, p]
    return [(st, p) for st, p in acc.values()]


def merge(pairs):
    acc = collections.OrderedDict()
    for st, p in pairs:
        acc[st] = acc.get(st, 0.0) + p
    return list(acc.items())


def generate_stochastic(cm, S: CStoch, start_pairs, target, max_states=200000):
    """start_pairs: [(state or None, prob)].  Returns [(final state, prob)] after growth + finalisation."""
    pairs = []
    for st, p in start_pairs:
        if st is None:
            if S.left.sym:
                raise Stuck("no prefix for a non-empty left terminal")
            cands = [((tok, d), d.weight) for tok in S.ends for d in tok.descs]
            for (tok, d), pp in weighted(cands):
                if len(tok.descs) != 1:
                    raise Stuck("start end group with several descriptors")
                pairs.append((State((tok.key,), (), ((0, d.idx, d.weight, d.transitions),)), p * pp, 0.0))
        else:
            if len(st.opens) != 1:
                raise Stuck("prefix must have exactly one open descriptor")
            o = st.opens[0]
            od = _open_desc(cm, st, o)
            if od.bare != S.left.bare:
                raise Stuck(f"prefix descriptor {od.bare} differs from left terminal {S.left.bare}")
            st2 = State(st.instances, st.bonds, ((o[0], o[1], S.left.weight, S.left.transitions),))
            pairs.append((st2, p, 0.0))
    # growth: (state, prob, w0) -- w0 = mass before this object started
    active = [(st, p, mass_of(cm, st)) for st, p, _ in pairs]
    done = []
    guard = 0
    while active:
        nxt = collections.OrderedDict()
        for st, p, w0 in active:
            for st2, pp in growth_options(cm, S, st):
                if not st2.opens:
                    done.append((st2, p * pp))  # premature end: nothing left to react
                    continue
                if mass_of(cm, st2) - w0 > target:
                    for st3, p3 in finalize_options(cm, S, st2):
                        done.append((st3, p * pp * p3))
                else:
                    key = (state_key(st2), w0)
                    if key in nxt:
                        nxt[key][1] += p * pp
                    else:
                        nxt[key] = [st2, p * pp, w0]
        active = [(st, p, w0) for st, p, w0 in nxt.values()]
        guard += len(active)
        if guard > max_states:
            raise Stuck("model state budget exceeded")
    return merge_iso(done)


def generate_token(cm, T: CTok, start_pairs):
    out = []
    for st, p in start_pairs:
        if st is None:
            out.append((State((T.key,), (), tuple((0, d.idx, d.weight, d.transitions) for d in T.descs)), p))
            continue
        if len(st.opens) != 1:
            raise Stuck("prefix must have exactly one open descriptor")
        o = st.opens[0]
        od = _open_desc(cm, st, o)
        cands = [(d, d.weight) for d in T.descs if compat(od.triple, d.triple)]
        for d, pp in weighted(cands):
            out.append((_attach(cm, st, o, T, d.idx), p * pp))
    return merge(out)


def exact_states(cm: CMol, targets):
    """{final abstract state: probability}; targets: forced target mass per stochastic element (dict elem -> T)"""
    pairs = [(None, 1.0)]
    for i, e in enumerate(cm.elements):
        if isinstance(e, CTok):
            pairs = generate_token(cm, e, pairs)
        else:
            pairs = generate_stochastic(cm, e, pairs, targets[i])
    return pairs


# ------------------------------------------------------------------ assembly (model's own) ---
def assemble(cm: CMol, st):
    """Build the RDKit molecule of an abstract state from the AST fragments; returns (mol, atom offsets)"""
    from rdkit import Chem

    offs, mol = [], None
    for k in st.instances:
        frag = cm.tok(k).reading.mol
        offs.append(0 if mol is None else mol.GetNumAtoms())
        mol = Chem.Mol(frag) if mol is None else Chem.CombineMols(mol, frag)
    rw = Chem.RWMol(mol)
    bt = {1.0: Chem.BondType.SINGLE, 2.0: Chem.BondType.DOUBLE, 3.0: Chem.BondType.TRIPLE, 1.5: Chem.BondType.AROMATIC}
    for a, da, b, db in st.bonds:
        ta, tb = cm.tok(st.instances[a]), cm.tok(st.instances[b])
        rw.AddBond(offs[a] + ta.descs[da].atom, offs[b] + tb.descs[db].atom, bt[ta.descs[da].order])
    out = rw.GetMol()
    Chem.SanitizeMol(out)
    return out, offs


def canonical_smiles(cm, st):
    from rdkit import Chem

    return Chem.MolToSmiles(assemble(cm, st)[0])


def tree_key(cm, st):
    """cheap canonical form of the residue tree rooted at instance 0 (merges equal trees before RDKit is used)"""
    adj = collections.defaultdict(list)
    for a, da, b, db in st.bonds:
        adj[a].append((da, db, b))
        adj[b].append((db, da, a))

    def canon(n, parent):
        kids = sorted((da, db, canon(c, n)) for da, db, c in adj[n] if c != parent)
        return (st.instances[n], tuple(kids))

    opens = tuple(sorted((o[0], o[1]) for o in st.opens))
    return (canon(0, -1), len(opens))


def exact_distribution(cm, targets, work=60000):
    WORK["left"] = work
    try:
        return _exact_distribution(cm, targets)
    finally:
        WORK["left"] = None


def _exact_distribution(cm, targets):
    by_tree = collections.OrderedDict()
    for st, p in exact_states(cm, targets):
        k = tree_key(cm, st)
        if k in by_tree:
            by_tree[k][1] += p
        else:
            by_tree[k] = [st, p]
    out = collections.OrderedDict()
    for st, p in by_tree.values():
        smi = canonical_smiles(cm, st)
        out[smi] = out.get(smi, 0.0) + p
    return out


# ------------------------------------------------------------------ closability (C06) --------
def closable(cm: CMol):
    """Conservative well-posedness analysis over descriptor identities.  (True, '') only when every
    generation path provably completes with all descriptors consumed."""
    els = cm.elements
    incoming = None  # set of CDesc that may be the single open descriptor handed over, or None at the start
    for i, e in enumerate(els):
        last = i == len(els) - 1
        if isinstance(e, CTok):
            if incoming is None:
                if i != 0:
                    return False, "token without prefix in the middle"
                rests = [list(e.descs)]
            else:
                rests = []
                for inc in incoming:
                    cands = [d for d in e.descs if compat(inc.triple, d.triple)]
                    if not cands:
                        return False, f"element {i}: token has no descriptor compatible with {inc.triple}"
                    try:
                        picks = [d for d, p in weighted([(d, d.weight) for d in cands])]
                    except Stuck as exc:
                        return False, str(exc)
                    for d in picks:
                        rests.append([x for x in e.descs if x.idx != d.idx])
            if last:
                if any(rests):
                    return False, "last token keeps an open descriptor"
                return True, ""
            if any(len(r) != 1 for r in rests):
                return False, f"element {i}: token does not hand over exactly one descriptor"
            incoming = []
            for r in rests:
                if r[0] not in incoming:
                    incoming.append(r[0])
            continue
        # ---- stochastic object
        S = e
        if S.dist is None:
            return False, "no distribution"
        for t in S.ends:
            if len(t.descs) != 1:
                return False, "end group with several descriptors"
        for t in S.repeats:
            if t.mass <= 0:
                return False, "repeat unit without heavy-atom mass"
            if len(t.descs) < 1:
                return False, "repeat unit without descriptor"
        alld = S.all_descs()
        for t, d in alld:
            if d.weight < 0:
                return False, "negative weight"
            if d.transitions is not None and len(d.transitions) != len(alld):
                return False, "transition list length"
        # start opens: list of (CDesc identity used for compat, weight, transitions)
        if incoming is None:
            if i != 0:
                return False, "object without prefix in the middle"
            if S.left.sym:
                return False, "non-empty left terminal without prefix"
            if not S.ends:
                return False, "no end group to start from"
            try:
                starts = [d for (t, d), p in weighted([((t, d), d.weight) for t in S.ends for d in t.descs])]
            except Stuck as exc:
                return False, str(exc)
            start_opens = [(d.triple, d.transitions) for d in starts]
        else:
            for inc in incoming:
                if inc.bare != S.left.bare:
                    return False, f"element {i}: handed-over descriptor {inc.bare} differs from left terminal {S.left.bare}"
            if S.left.transitions is not None and len(S.left.transitions) != len(alld):
                return False, "left terminal transition list length"
            start_opens = [(inc.triple, S.left.transitions) for inc in incoming]

        def partners(triple, transitions):
            if transitions is not None:
                res = []
                for (t, d), w in zip(alld, transitions):
                    if w > 0:
                        if not compat(triple, d.triple):
                            raise Stuck("transition list addresses an incompatible descriptor")
                        res.append((t, d))
                if not res:
                    raise Stuck("transition list without positive entry")
                return res
            cands = [((t, d), d.weight) for t in S.repeats for d in t.descs if compat(triple, d.triple)]
            return [x for x, p in weighted(cands)]

        rtype = (S.right.sym, S.right.id, 1.0) if S.right.sym else None
        is_r = (lambda tr: compat(rtype, tr)) if rtype else (lambda tr: False)
        reach = {}  # (token key, desc idx) -> CDesc of descriptors that can be open
        max_descs = 1
        try:
            work = []
            for tr, trans in start_opens:
                ps = partners(tr, trans)
                for t, d in ps:
                    others = [x for x in t.descs if x.idx != d.idx]
                    if rtype and not any(is_r(x.triple) for x in others):
                        return False, f"element {i}: first unit may leave no descriptor for the right terminal"
                    if t.kind == "end" and (not last or rtype):
                        return False, "first unit may be an end group although the object must hand over"
                    for x in others:
                        if (t.key, x.idx) not in reach:
                            reach[(t.key, x.idx)] = x
                            work.append(x)
                    max_descs = max(max_descs, len(t.descs))
            while work:
                x = work.pop()
                for t, d in partners(x.triple, x.transitions):
                    others = [y for y in t.descs if y.idx != d.idx]
                    if rtype and is_r(x.triple) and not any(is_r(y.triple) for y in others):
                        return False, f"element {i}: growth may consume the only descriptor that matches the right terminal"
                    for y in others:
                        if (t.key, y.idx) not in reach:
                            reach[(t.key, y.idx)] = y
                            work.append(y)
                    max_descs = max(max_descs, len(t.descs))
        except Stuck as exc:
            return False, f"element {i}: {exc}"
        if not rtype and not last:
            return False, "empty right terminal before further elements"
        # capping
        need_cap = list(reach.values()) if (max_descs > 2 or not rtype) else []
        if incoming is None and max_descs <= 2 and rtype:
            need_cap = []  # start end group (1 descriptor) + linear units: exactly one open at any time
        for x in need_cap:
            if not any(compat(x.triple, d.triple) for t in S.ends for d in t.descs):
                return False, f"element {i}: open descriptor {x.triple} has no compatible end group"
        if not rtype:
            return True, ""
        incoming = [x for x in reach.values() if is_r(x.triple)]
        if not incoming:
            return False, "nothing to hand over"
    return False, "molecule ends with an open descriptor"
