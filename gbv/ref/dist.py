"""The six documented molecular-weight laws from closed forms / scipy *standard* special functions.
gauss(mean, sigma) uniform(low, high) schulz_zimm(Mw, Mn) log_normal(Mn, dispersity) poisson(mean)
flory_schulz(a).  Shares no code with /repo."""
import math

from scipy import special


class RefDist:
    family = ""
    discrete = False  # the *draws* are integers

    def cdf(self, x):  # P(T <= x)
        raise NotImplementedError

    def p_less(self, x):  # P(T < x)
        return self.cdf(x)

    def ppf(self, q):
        raise NotImplementedError

    def mean(self):
        raise NotImplementedError

    def var(self):
        raise NotImplementedError

    def support(self):
        return (-math.inf, math.inf)


class Gauss(RefDist):
    family = "gauss"

    def __init__(self, mu, sigma):
        self.mu, self.sigma = float(mu), float(sigma)

    def cdf(self, x):
        if self.sigma == 0:
            return 1.0 if x >= self.mu else 0.0
        return 0.5 * math.erfc(-(x - self.mu) / (self.sigma * math.sqrt(2.0)))

    def p_less(self, x):
        if self.sigma == 0:
            return 1.0 if x > self.mu else 0.0
        return self.cdf(x)

    def ppf(self, q):
        return self.mu + self.sigma * float(special.ndtri(q))

    def pdf(self, x):
        return math.exp(-0.5 * ((x - self.mu) / self.sigma) ** 2) / (self.sigma * math.sqrt(2 * math.pi))

    def mean(self):
        return self.mu

    def var(self):
        return self.sigma**2


class Uniform(RefDist):
    family = "uniform"

    def __init__(self, lo, hi):
        self.lo, self.hi = float(lo), float(hi)

    def cdf(self, x):
        if x <= self.lo:
            return 0.0
        if x >= self.hi:
            return 1.0
        return (x - self.lo) / (self.hi - self.lo)

    def ppf(self, q):
        return self.lo + q * (self.hi - self.lo)

    def pdf(self, x):
        return 1.0 / (self.hi - self.lo) if self.lo <= x <= self.hi else 0.0

    def mean(self):
        return 0.5 * (self.lo + self.hi)

    def var(self):
        return (self.hi - self.lo) ** 2 / 12.0

    def support(self):
        return (self.lo, self.hi)


class LogNormal(RefDist):
    """ln T ~ N(ln Mn - s^2/2, s^2) with s^2 = ln(dispersity): mean Mn, Mw/Mn = dispersity"""

    family = "log_normal"

    def __init__(self, M, D):
        self.M, self.D = float(M), float(D)
        self.s2 = math.log(self.D)
        self.m = math.log(self.M) - self.s2 / 2.0

    def cdf(self, x):
        if x <= 0:
            return 0.0
        return 0.5 * math.erfc(-(math.log(x) - self.m) / math.sqrt(2.0 * self.s2))

    def ppf(self, q):
        return math.exp(self.m + math.sqrt(self.s2) * float(special.ndtri(q)))

    def pdf(self, x):
        if x <= 0:
            return 0.0
        return math.exp(-((math.log(x) - self.m) ** 2) / (2 * self.s2)) / (x * math.sqrt(2 * math.pi * self.s2))

    def mean(self):
        return self.M

    def var(self):
        return self.M**2 * (self.D - 1.0)

    def support(self):
        return (0.0, math.inf)


class Poisson(RefDist):
    family = "poisson"
    discrete = True

    def __init__(self, N):
        self.N = float(N)

    def cdf(self, x):
        if x < 0:
            return 0.0
        return float(special.pdtr(math.floor(x), self.N))

    def p_less(self, x):
        return self.cdf(math.ceil(x) - 1)

    def pmf(self, k):
        if k < 0 or k != int(k):
            return 0.0
        return math.exp(k * math.log(self.N) - self.N - math.lgamma(k + 1))

    def ppf(self, q):
        return float(special.pdtrik(q, self.N))  # continuous inverse; callers round up

    def mean(self):
        return self.N

    def var(self):
        return self.N

    def support(self):
        return (0, math.inf)


class FlorySchulz(RefDist):
    """W(k) = a^2 k (1-a)^(k-1), k = 1, 2, ...;  cdf(k) = 1 - (1-a)^k (1 + a k)"""

    family = "flory_schulz"
    discrete = True

    def __init__(self, a):
        self.a = float(a)

    def cdf(self, x):
        if x < 1:
            return 0.0
        k = math.floor(x)
        return 1.0 - (1.0 - self.a) ** k * (1.0 + self.a * k)

    def p_less(self, x):
        return self.cdf(math.ceil(x) - 1)

    def pmf(self, k):
        if k < 1 or k != int(k):
            return 0.0
        return self.a**2 * k * (1.0 - self.a) ** (k - 1)

    def ppf(self, q):
        lo, hi = 0, 1
        while self.cdf(hi) < q:
            hi *= 2
            if hi > 1e12:
                return math.inf
        while hi - lo > 1:
            mid = (lo + hi) // 2
            if self.cdf(mid) < q:
                lo = mid
            else:
                hi = mid
        return hi

    def mean(self):
        return 2.0 / self.a - 1.0

    def var(self):
        return 2.0 * (1.0 - self.a) / self.a**2

    def support(self):
        return (1, math.inf)


class SchulzZimm(RefDist):
    """documented law: P(M) = z^(z+1)/Gamma(z+1) M^(z-1)/Mn^z exp(-z M/Mn), z = Mn/(Mw-Mn): a gamma law with shape z
    and mean Mn; the library evaluates this density on integer masses (documented)."""

    family = "schulz_zimm"
    discrete = True

    def __init__(self, Mw, Mn):
        self.Mw, self.Mn = float(Mw), float(Mn)
        self.z = self.Mn / (self.Mw - self.Mn)

    def cdf(self, x):  # continuous gamma law
        if x <= 0:
            return 0.0
        return float(special.gammainc(self.z, self.z * x / self.Mn))

    def p_less(self, x):
        return self.cdf(x)

    def p_less_on_integers(self, x):
        """P(T < x) for a draw from the documented 'density evaluated on integer masses': sum of the density over
        the integers 0 <= k < x (this is what an inverse-cdf draw from the discretised law realises)."""
        if not hasattr(self, "_cum"):
            self._cum = [0.0]
        n = max(0, math.ceil(x))  # integers 0 .. n-1 are < x
        while len(self._cum) <= n:
            k = len(self._cum) - 1
            v = self.pdf(k) if k > 0 else (self.pdf(0) if self.z <= 1 else 0.0)
            self._cum.append(self._cum[-1] + v)
        return min(1.0, self._cum[n])

    def pdf(self, x):
        if x <= 0:
            if x == 0 and self.z == 1:
                return 1.0 / self.Mn
            return math.inf if (x == 0 and self.z < 1) else 0.0
        z, Mn = self.z, self.Mn
        return math.exp((z + 1) * math.log(z) - math.lgamma(z + 1) + (z - 1) * math.log(x) - z * math.log(Mn) - z * x / Mn)

    def ppf(self, q):
        return float(special.gammaincinv(self.z, q)) * self.Mn / self.z

    def mean(self):
        return self.Mn

    def var(self):
        return self.Mn**2 / self.z

    def support(self):
        return (0, math.inf)


def make(family, params):
    return {"gauss": Gauss, "uniform": Uniform, "log_normal": LogNormal, "poisson": Poisson, "flory_schulz": FlorySchulz, "schulz_zimm": SchulzZimm}[family](*params)


def decoy_texts(family, params):
    """distribution texts of OTHER families whose numbers coincide with (family, params) -- parsed before the subject
    so that any state shared between distribution objects (caches keyed by numbers, ...) is primed against it"""
    p = [float(x) for x in params]
    out = []
    if len(p) == 2:
        a, b = p
        if family == "gauss":
            out.append(f"uniform({int(a)}, {int(a + b)})")
        if family == "uniform":
            out.append(f"gauss({a}, {b - a})")
        for fam in ("gauss", "uniform", "log_normal", "schulz_zimm"):
            if fam == family:
                continue
            if fam == "uniform" and not a < b:
                continue
            if fam == "log_normal" and not b > 1:
                continue
            if fam == "schulz_zimm" and not a > b > 0:
                continue
            out.append(f"{fam}({a}, {b})")
            if fam != "schulz_zimm" and fam != "log_normal" and b < a and fam == "uniform":
                out.append(f"{fam}({b}, {a})")
    else:
        (a,) = p
        if family != "poisson" and a > 0:
            out.append(f"poisson({a})")
        if family != "flory_schulz" and 0 < a < 1:
            out.append(f"flory_schulz({a})")
    return out


KNOWN_NAMES = ("gauss", "uniform", "schulz_zimm", "log_normal", "poisson", "flory_schulz")


def unknown_names(fam, params, rng=None):
    """distribution texts whose NAME is not one of the six documented ones although it contains one of them (as prefix, suffix, infix,
    in another case, doubled, combined with a second known name), each with a well-formed parameter list of the family's arity"""
    import random

    rng = rng or random.Random(0)
    ps = "(" + ", ".join(repr(float(p)) for p in params) + ")"
    out = [f"{fam}ian{ps}", f"{fam}_int{ps}", f"{fam}2{ps}", f"{fam}_b{ps}", f"{fam}_mixture{ps}", f"inverse_{fam}{ps}", f"non_{fam}{ps}", f"x{fam}{ps}", f"zero_inflated_{fam}{ps}",
           f"{fam.upper()}{ps}", f"{fam.capitalize()}{ps}", f"{fam}{fam}{ps}", f"{fam[:-1]}{ps}", f"{fam[1:]}{ps}", f"{fam.replace('_', '')}{ps}" if "_" in fam else f"{fam}_{ps}",
           f"{fam}.{ps}", f"{fam}-{fam}{ps}"]
    other = rng.choice([k for k in KNOWN_NAMES if k != fam and k not in fam and fam not in k])
    out += [f"{other}_{fam}{ps}", f"{fam}_{other}{ps}", f"{other}{fam}{ps}"]
    return [t for t in out if t.split("(")[0] not in KNOWN_NAMES]
