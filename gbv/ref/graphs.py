"""Reference reaction graph (C16) and stochastic atom graph (C17) built from the compiled molecule
description and the selection law (gbv.ref.model.weighted).  Descriptor keys: (elem, kind, tidx, didx)."""
import collections

from .compat import compat
from .model import CStoch, CTok, Stuck, weighted


def dkey(tok, d):
    return tok.key + (d.idx,)


def all_tokens(cm):
    for e in cm.elements:
        if isinstance(e, CTok):
            yield e
        else:
            for t in e.repeats + e.ends:
                yield t


def _law(cands):
    try:
        return weighted(cands)
    except Stuck:
        return []


def reaction_graph(cm):
    """{(src key, dst key, kind): probability} kind in prob | term_prob | trans_prob, and per (src, kind) a flag
    telling whether all candidate weights were zero (uniform pick among zero weights)."""
    edges = {}
    zero = set()
    els = cm.elements
    for i, e in enumerate(els):
        if isinstance(e, CStoch):
            alld = e.all_descs()
            for tok, d in alld:
                src = dkey(tok, d)
                if d.transitions is not None:
                    tot = float(sum(d.transitions))
                    for (t2, d2), w in zip(alld, d.transitions):
                        if w > 0 and tot > 0:
                            edges[(src, dkey(t2, d2), "prob")] = w / tot
                    continue
                rep = [((t2, d2), d2.weight) for t2 in e.repeats for d2 in t2.descs if compat(d.triple, d2.triple)]
                for (t2, d2), p in _law(rep):
                    edges[(src, dkey(t2, d2), "prob")] = p
                if rep and all(w == 0 for _, w in rep):
                    zero.add((src, "prob"))
                end = [((t2, d2), d2.weight) for t2 in e.ends for d2 in t2.descs if compat(d.triple, d2.triple)]
                for (t2, d2), p in _law(end):
                    edges[(src, dkey(t2, d2), "term_prob")] = p
                if end and all(w == 0 for _, w in end):
                    zero.add((src, "term_prob"))
        if i + 1 >= len(els):
            continue
        nxt = els[i + 1]
        # descriptors of element i that may be the open one when element i+1 starts
        if isinstance(e, CTok):
            srcs = [(e, d) for d in e.descs]
        else:
            rtype = (e.right.sym, e.right.id, 1.0)
            srcs = [(t, d) for t in e.repeats for d in t.descs if e.right.sym and compat(rtype, d.triple)]
        for tok, d in srcs:
            src = dkey(tok, d)
            if isinstance(nxt, CTok):
                cands = [((nxt, d2), d2.weight) for d2 in nxt.descs if compat(d.triple, d2.triple)]
            else:
                if (d.sym, d.id) != (nxt.left.sym, nxt.left.id):
                    continue
                if nxt.left.transitions is not None:
                    tot = float(sum(nxt.left.transitions))
                    for (t2, d2), w in zip(nxt.all_descs(), nxt.left.transitions):
                        if w > 0:
                            edges[(src, dkey(t2, d2), "trans_prob")] = w / tot
                    continue
                cands = [((t2, d2), d2.weight) for t2 in nxt.repeats for d2 in t2.descs if compat(d.triple, d2.triple)]
            for (t2, d2), p in _law(cands):
                edges[(src, dkey(t2, d2), "trans_prob")] = p
            if cands and all(w == 0 for _, w in cands):
                zero.add((src, "trans_prob"))
    return edges, zero


# ------------------------------------------------------------------ stochastic atom graph (C17)
BT_INT = {1.0: 1, 2.0: 2, 3.0: 3, 1.5: 12}


def atom_graph(cm):
    """Reference for C17: node table, static edges, required non-static edges, and the data the admissibility
    predicate needs.  Node numbering: tokens in element order; inside an object repeat units then end groups."""
    offs = {}
    nodes = []  # (atomic_num, charge, aromatic)
    node_tok = []  # token key per node
    for tok in all_tokens(cm):
        offs[tok.key] = len(nodes)
        for a in tok.reading.mol.GetAtoms():
            nodes.append((a.GetAtomicNum(), a.GetFormalCharge(), bool(a.GetIsAromatic())))
            node_tok.append(tok.key)
    static = {}
    for tok in all_tokens(cm):
        o = offs[tok.key]
        for (i, j), od in tok.reading.bonds.items():
            static[(o + i, o + j)] = BT_INT[od]
            static[(o + j, o + i)] = BT_INT[od]
    # descriptors sitting on each node
    at_node = collections.defaultdict(list)
    for tok in all_tokens(cm):
        for d in tok.descs:
            at_node[offs[tok.key] + d.atom].append((tok, d))
    required = []  # (u, v, kind, weight, bond_type int)
    els = cm.elements
    for i, e in enumerate(els):
        if isinstance(e, CStoch):
            alld = e.all_descs()
            for tok in e.repeats:
                for d in tok.descs:
                    u = offs[tok.key] + d.atom
                    if d.transitions is not None:
                        for (t2, d2), w in zip(alld, d.transitions):
                            if w > 0 and compat(d.triple, d2.triple):
                                required.append((u, offs[t2.key] + d2.atom, "stochastic", float(w), BT_INT[d.order]))
                        continue
                    for t2 in e.repeats:
                        for d2 in t2.descs:
                            if compat(d.triple, d2.triple) and d2.weight > 0:
                                required.append((u, offs[t2.key] + d2.atom, "stochastic", d2.weight, BT_INT[d.order]))
                    for t2 in e.ends:
                        for d2 in t2.descs:
                            if compat(d.triple, d2.triple) and d2.weight > 0:
                                required.append((u, offs[t2.key] + d2.atom, "termination", d2.weight, BT_INT[d.order]))
        if i + 1 >= len(els):
            continue
        nxt = els[i + 1]
        if isinstance(e, CTok):
            srcs = [(e, d) for d in e.descs]
        else:
            rtype = (e.right.sym, e.right.id, 1.0)
            srcs = [(t, d) for t in e.repeats for d in t.descs if e.right.sym and compat(rtype, d.triple)]
        for tok, d in srcs:
            u = offs[tok.key] + d.atom
            if isinstance(nxt, CTok):
                dst = [(nxt, d2) for d2 in nxt.descs if compat(d.triple, d2.triple)]
            else:
                if (d.sym, d.id) != (nxt.left.sym, nxt.left.id):
                    continue
                dst = [(t2, d2) for t2 in nxt.repeats for d2 in t2.descs if compat(d.triple, d2.triple)]
            for t2, d2 in dst:
                if d2.weight > 0:
                    required.append((u, offs[t2.key] + d2.atom, "transition", d2.weight, BT_INT[d.order]))
    return {"nodes": nodes, "node_tok": node_tok, "static": static, "required": required, "at_node": at_node, "offs": offs}
