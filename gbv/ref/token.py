"""Descriptor-as-atom oracle (C02): every bond descriptor in a token text is replaced by a uniquely
isotope-labelled dummy atom *at the same position*, the result is parsed by RDKit, and for each
dummy its single neighbour and the order of that bond are read back.  Deleting the dummies gives
the fragment.  Independent of both the repository's scanner and of the harness' printer."""
import re

from rdkit import Chem

DESC_RE = re.compile(r"\[[$<>][^\]]*\]")
_ORDER = {
    Chem.BondType.SINGLE: 1.0,
    Chem.BondType.DOUBLE: 2.0,
    Chem.BondType.TRIPLE: 3.0,
    Chem.BondType.AROMATIC: 1.5,
    Chem.BondType.ONEANDAHALF: 1.5,
    Chem.BondType.QUADRUPLE: 4.0,
}


class TokenReading:
    __slots__ = ("text", "desc_texts", "desc_atom", "desc_order", "atoms", "bonds", "mol", "heavy_mass", "n_atoms", "merged_h", "as_written")


def merged(r):
    """The chemical reading of a token: an explicit hydrogen written in a multi-atom token ('CCO[H]', 'NCCCCCCN[H]') is a hydrogen of its
    neighbour, not an atom of its own (RDKit's reading of SMILES, which the library adopts when it builds fragments, graphs and molecules).
    Returns a TokenReading whose atoms / bonds / descriptor atoms are re-indexed without those hydrogens; `as_written` keeps the original."""
    frag = r.mol
    drop = []
    on_h = set(a for a in r.desc_atom if a is not None)
    for a in frag.GetAtoms():
        if a.GetAtomicNum() == 1 and a.GetIsotope() == 0 and a.GetFormalCharge() == 0 and a.GetDegree() == 1 and a.GetIdx() not in on_h:
            nb = a.GetNeighbors()[0]
            if nb.GetAtomicNum() > 1:
                drop.append(a.GetIdx())
    if not drop:
        r.merged_h = ()
        r.as_written = r
        return r
    keep = [i for i in range(frag.GetNumAtoms()) if i not in drop]
    new = {old: k for k, old in enumerate(keep)}
    m = TokenReading()
    m.text, m.desc_texts, m.desc_order = r.text, r.desc_texts, r.desc_order
    m.desc_atom = [new[a] for a in r.desc_atom]
    m.atoms = [r.atoms[i] for i in keep]
    m.bonds = {tuple(sorted((new[i], new[j]))): o for (i, j), o in r.bonds.items() if i in new and j in new}
    rw = Chem.RWMol(frag)
    for i in sorted(drop, reverse=True):
        nb = rw.GetAtomWithIdx(i).GetNeighbors()[0]
        nb.SetNumExplicitHs(nb.GetNumExplicitHs() + 1)
        rw.RemoveAtom(i)
    mm = rw.GetMol()
    try:
        Chem.SanitizeMol(mm)
    except Exception as exc:
        raise ValueError(f"merged-hydrogen fragment does not sanitise: {exc}")
    m.mol = mm
    m.n_atoms = len(keep)
    m.heavy_mass = r.heavy_mass
    m.merged_h = tuple(drop)
    m.as_written = r
    return m


def order_of(bond):
    return _ORDER.get(bond.GetBondType(), -1.0)


def atom_sig(a):
    """element, charge, isotope -- what C05 calls 'identical in elements, charges, isotopes'"""
    return (a.GetAtomicNum(), a.GetFormalCharge(), a.GetIsotope())


def read_token(text):
    """Returns a TokenReading or raises ValueError when the text is not a well-formed token under
    the descriptor-as-atom reading."""
    descs = DESC_RE.findall(text)
    k = [0]

    def sub(m):
        k[0] += 1
        return f"[{900 + k[0]}*]"

    dummy_text = DESC_RE.sub(sub, text)
    # ':' in front of a descriptor is an aromatic bond character that RDKit also understands
    mol = Chem.MolFromSmiles(dummy_text, sanitize=False)
    if mol is None:
        raise ValueError(f"not a SMILES under the dummy reading: {dummy_text}")
    dummies = {}
    for a in mol.GetAtoms():
        if a.GetAtomicNum() == 0 and a.GetIsotope() > 900:
            dummies[a.GetIdx()] = a.GetIsotope() - 901
    if len(dummies) != len(descs):
        raise ValueError("descriptor count mismatch")
    newidx, n = {}, 0
    for a in mol.GetAtoms():
        if a.GetIdx() not in dummies:
            newidx[a.GetIdx()] = n
            n += 1
    r = TokenReading()
    r.text = text
    r.desc_texts = descs
    r.desc_atom = [None] * len(descs)
    r.desc_order = [None] * len(descs)
    for di, k_ in dummies.items():
        a = mol.GetAtomWithIdx(di)
        nb = list(a.GetBonds())
        if len(nb) != 1:
            raise ValueError(f"descriptor {descs[k_]} touches {len(nb)} atoms")
        other = nb[0].GetOtherAtomIdx(di)
        if other in dummies:
            raise ValueError("descriptor bonded to descriptor")
        r.desc_atom[k_] = newidx[other]
        r.desc_order[k_] = order_of(nb[0])
    rw = Chem.RWMol(mol)
    for di in sorted(dummies, reverse=True):
        rw.RemoveAtom(di)
    frag = rw.GetMol()
    try:
        Chem.SanitizeMol(frag)
    except Exception as exc:
        raise ValueError(f"fragment does not sanitise: {exc}")
    r.mol = frag
    r.n_atoms = frag.GetNumAtoms()
    r.atoms = [atom_sig(a) for a in frag.GetAtoms()]
    r.bonds = {}
    for b in frag.GetBonds():
        i, j = sorted((b.GetBeginAtomIdx(), b.GetEndAtomIdx()))
        r.bonds[(i, j)] = order_of(b)
    from rdkit.Chem import Descriptors

    r.heavy_mass = Descriptors.HeavyAtomMolWt(frag)
    r.merged_h = ()
    r.as_written = r
    return r


def lib_fragment(token):
    """The repository's own fragment of a parsed token, read back through RDKit:
    (atoms, bonds, aromatic flags, Hs)"""
    smi = token.generate_smiles_fragment()
    params = Chem.SmilesParserParams()
    params.removeHs = False  # written hydrogens are atoms of the notation
    mol = Chem.MolFromSmiles(smi, params)
    if mol is None:
        return None
    atoms = [atom_sig(a) for a in mol.GetAtoms()]
    bonds = {}
    for b in mol.GetBonds():
        i, j = sorted((b.GetBeginAtomIdx(), b.GetEndAtomIdx()))
        bonds[(i, j)] = order_of(b)
    return atoms, bonds, [a.GetIsAromatic() for a in mol.GetAtoms()], [a.GetTotalNumHs() for a in mol.GetAtoms()], mol
