"""Reference solution of the linear mixture system of C12.

unknowns: system mass M, per component absolute mass a_i and percentage p_i
equations: a_i = p_i/100 * M,  sum_i p_i = 100, every written value holds, optionally M = M0 (caller)
"""

TOL_OK = 1e-9  # relative: treated as consistent
TOL_BAD = 1e-4  # relative: treated as contradictory; in between: ambiguous (not used)


def solve(specs, M0=None):
    """specs: list of ('abs', x) | ('pct', x) | None.  Returns (verdict, data):
    ('determined', {'M': M, 'pct': [...], 'abs': [...]}) | ('under', reason) | ('contra', reason) | ('ambiguous', reason)"""
    n = len(specs)
    A = {i: float(s[1]) for i, s in enumerate(specs) if s and s[0] == "abs"}
    P = {i: float(s[1]) for i, s in enumerate(specs) if s and s[0] == "pct"}
    U = [i for i, s in enumerate(specs) if s is None]
    for v in list(A.values()):
        if v <= 0:
            return "contra", "non-positive absolute mass"
    for v in P.values():
        if v <= 0 or v > 100:
            return "contra", "percentage outside (0, 100]"
    SA, SP = sum(A.values()), sum(P.values())
    if SP > 100 * (1 + TOL_BAD):
        return "contra", "percentages exceed 100"
    if M0 is not None and M0 <= 0:
        return "contra", "non-positive system mass"

    def rel(a, b):
        return abs(a - b) / max(abs(a), abs(b), 1e-300)

    if len(U) >= 2:
        return "under", "more than one unspecified component"
    M = M0
    if not U:
        if A:
            if SP >= 100 * (1 - TOL_OK):
                if rel(SP, 100) <= TOL_OK or SP > 100:
                    return "contra", "percentages use up 100 although absolute masses remain"
            M1 = 100.0 * SA / (100.0 - SP)
            if M is None:
                M = M1
            else:
                r = rel(M, M1)
                if r > TOL_BAD:
                    return "contra", "caller's system mass disagrees with the specification"
                if r > TOL_OK:
                    return "ambiguous", "system mass nearly consistent"
        else:
            r = rel(SP, 100.0)
            if r > TOL_BAD:
                return "contra", "percentages do not sum to 100"
            if r > TOL_OK:
                return "ambiguous", "percentages nearly 100"
            if M is None:
                return "under", "only percentages and no system mass"
        pct = [P[i] if i in P else 100.0 * A[i] / M for i in range(n)]
        ab = [A[i] if i in A else P[i] / 100.0 * M for i in range(n)]
        return "determined", {"M": M, "pct": pct, "abs": ab}
    # exactly one unspecified component
    if M is None:
        return "under", "an unspecified component and no way to know the system mass"
    rest = 100.0 - SP - 100.0 * SA / M
    if rest < -100 * TOL_BAD:
        return "contra", "specified components exceed the system mass"
    if rest <= 100 * TOL_BAD:
        return "ambiguous", "unspecified component would get (nearly) nothing"
    u = U[0]
    pct = [P[i] if i in P else (100.0 * A[i] / M if i in A else rest) for i in range(n)]
    ab = [A[i] if i in A else pct[i] / 100.0 * M for i in range(n)]
    return "determined", {"M": M, "pct": pct, "abs": ab}


def library_inference_class(specs, M0):
    """The three shapes for which the pinned library implements inference (known finding C12):
    1 all absolute; 2 exactly n-1 percentages plus one absolute (or the caller's mass for the remaining one);
    3 caller's mass and no unspecified component."""
    n = len(specs)
    nA = sum(1 for s in specs if s and s[0] == "abs")
    nP = sum(1 for s in specs if s and s[0] == "pct")
    nU = n - nA - nP
    if nA == n:
        return 1
    if nP == n - 1 and (nA == 1 or (nU == 1 and M0 is not None)):
        return 2
    if M0 is not None and nU == 0:
        return 3
    return 0
