"""Field-by-field comparison of parsed library objects with the AST (ground truth of the printer)
and with the RDKit dummy-atom reading of the same text.  Only public attributes are read."""
import math
import re

from ..ast import MolAst, StochAst, SysAst, TokenAst
from ..ref import compat as rc
from ..ref.token import lib_fragment, read_token

NUM = r"[-+]?(?:\d+\.?\d*|\.\d+)(?:[eE][-+]?\d+)?"


class HarnessBug(Exception):
    pass


def V(cls, msg, **kw):
    d = {"cls": cls, "msg": msg}
    d.update(kw)
    return d


def feq(a, b, rel=1e-12):
    return a == b or abs(a - b) <= rel * max(abs(a), abs(b))


def desc_fields(bd):
    """public fields of a library BondDescriptor"""
    i = bd.descriptor_id
    tr = None if bd.transitions is None else [float(x) for x in bd.transitions]
    return {
        "sym": bd.descriptor,
        "id": None if i == "" or i is None else int(i),
        "weight": float(bd.weight),
        "transitions": tr,
        "order": rc.lib_order(bd),
        "atom": getattr(bd, "atom_bonding_to", None),
    }


def compare_desc(lib_bd, d, where, atom=None, order=None, P="c02"):
    """d: ast Desc.  atom/order: expected attachment atom and order (None = do not compare)."""
    out = []
    f = desc_fields(lib_bd)
    if f["sym"] != d.sym:
        out.append(V(f"{P}.desc-symbol", f"{where}: symbol {f['sym']!r}, written {d.sym!r}"))
    if f["id"] != d.id:
        out.append(V(f"{P}.desc-id", f"{where}: id {f['id']!r}, written {d.id!r}"))
    if d.sym == "":
        return out
    if not feq(f["weight"], d.eff_weight):
        out.append(V(f"{P}.desc-weight", f"{where}: weight {f['weight']!r}, written {d.weight!r} (means {d.eff_weight})"))
    want_tr = d.transitions
    if (f["transitions"] is None) != (want_tr is None) or (want_tr is not None and not (len(want_tr) == len(f["transitions"]) and all(feq(float(a), b) for a, b in zip(want_tr, f["transitions"])))):
        out.append(V(f"{P}.desc-transitions", f"{where}: transitions {f['transitions']!r}, written {want_tr!r}"))
    if order is not None and f["order"] != order:
        out.append(V(f"{P}.desc-order", f"{where}: bond order {f['order']} ({lib_bd.bond_type}), the notation denotes {order}"))
    if atom is not None and f["atom"] != atom:
        out.append(V(f"{P}.desc-atom", f"{where}: attached to atom {f['atom']}, the notation denotes atom {atom}"))
    return out


def compare_token(lib_tok, ast_tok: TokenAst, text, where="token", P="c02", extra_front=0, extra_back=0):
    """lib_tok parsed from `text` (printed from ast_tok, possibly with `extra_front` / `extra_back` descriptors the
    library inserted, which the caller checks separately)."""
    out = []
    try:
        reading = read_token(text)
    except ValueError as exc:
        raise HarnessBug(f"dummy reading failed for {text!r}: {exc}")
    ast_descs = ast_tok.descriptors()
    if extra_front == 0 and extra_back == 0:
        # self check of the harness: AST and dummy-atom reading must agree
        if [a for _, a in ast_descs] != reading.desc_atom or [d.order for d, _ in ast_descs] != reading.desc_order:
            raise HarnessBug(f"AST and dummy reading disagree on {text!r}: ast {[(a, d.order) for d, a in ast_descs]} vs {list(zip(reading.desc_atom, reading.desc_order))}")
        if len(ast_tok.atoms) != reading.n_atoms:
            raise HarnessBug(f"AST and dummy reading disagree on atom count of {text!r}")
    # atoms
    lib_atoms = [a.generate_string(False) for a in lib_tok.atoms]
    want_atoms = [n.atom for n in ast_tok.atoms]
    if lib_atoms != want_atoms:
        out.append(V(f"{P}.token-atoms", f"{where} {text!r}: atoms {lib_atoms}, written {want_atoms}"))
    # fragment
    lf = lib_fragment(lib_tok)
    if lf is None:
        if all(o == 1.0 for o in reading.desc_order):
            bondchar = bool(re.search(r"[-=#:]\[[$<>]", text) or re.match(r"^\[[$<>][^\]]*\][-=#:]", text))
            out.append(V(f"{P}.fragment-unreadable" + (".bond-char-at-descriptor" if bondchar else ""), f"{where} {text!r}: generate_smiles_fragment() = {lib_tok.generate_smiles_fragment()!r} is not a SMILES"))
    else:
        atoms, bonds, arom, hs, _ = lf
        if atoms != reading.atoms:
            out.append(V(f"{P}.fragment-atoms", f"{where} {text!r}: fragment atoms {atoms}, denoted {reading.atoms}"))
        elif bonds != reading.bonds:
            out.append(V(f"{P}.fragment-bonds", f"{where} {text!r}: fragment bonds {sorted(bonds.items())}, denoted {sorted(reading.bonds.items())}"))
    # descriptors
    lib_descs = list(lib_tok.bond_descriptors)
    core = lib_descs[extra_front : len(lib_descs) - extra_back if extra_back else None]
    if len(core) != len(ast_descs):
        out.append(V(f"{P}.desc-count", f"{where} {text!r}: {len(lib_descs)} descriptors (expected {len(ast_descs)} written + {extra_front + extra_back} inserted)"))
        return out
    for k, (bd, (d, a)) in enumerate(zip(core, ast_descs)):
        kk = k + extra_front
        sub = compare_desc(bd, d, f"{where} {text!r} descriptor #{kk}", atom=reading.desc_atom[kk], order=reading.desc_order[kk], P=P)
        for v in sub:
            v["placement"] = placement_class(text, kk)
            if v["cls"].endswith("desc-atom") or v["cls"].endswith("desc-order"):
                v["cls"] += "." + v["placement"]
        out += sub
    return out


def placement_class(text, k):
    """where in the token text the k-th descriptor sits (mechanism feature for witness classes)"""
    ms = list(re.finditer(r"\[[$<>][^\]]*\]", text))
    m = ms[k]
    before, after = text[: m.start()], text[m.end() :]
    if not before.rstrip("-=#:"):
        return "first"
    # strip the bond character
    b = before.rstrip("-=#:")
    if b.endswith(")"):
        # follows a closed branch: was that branch empty of atoms (only descriptors)?
        depth, i = 0, len(b) - 1
        while i >= 0:
            if b[i] == ")":
                depth += 1
            elif b[i] == "(":
                depth -= 1
                if depth == 0:
                    break
            i -= 1
        inner = b[i + 1 : -1]
        inner_atoms = re.sub(r"\[[$<>][^\]]*\]", "", inner).strip("()-=#:")
        return "after-branch-with-atoms" if inner_atoms else "after-descriptor-branch"
    if b.endswith("("):
        return "branch-open"
    if re.search(r"\[[$<>][^\]]*\]$", b):
        return "after-descriptor"
    if not after:
        return "last"
    return "inner"


def dist_fields(dist):
    """family and parameters as the object reports them in its text form (public)"""
    if dist is None:
        return None
    txt = dist.generate_string(True)
    m = re.match(r"^\|\s*([a-z_]+)\s*\((.*)\)\s*\|$", txt)
    if not m:
        return ("?", txt)
    nums = tuple(float(x) for x in re.findall(NUM, m.group(2)))
    return (m.group(1), nums)


def dist_behaviour(dist):
    """What the distribution object DOES (interval probabilities at a few masses chosen from its parameters), as opposed to what it prints: two
    objects that denote the same distribution answer with identical floats.  None where probing is not cheap or not possible."""
    f = dist_fields(dist)
    if not f or f[0] == "?" or not f[1]:
        return None
    fam, nums = f
    try:
        from gbigsmiles.mol_prob import RememberAdd

        if fam == "gauss":
            if nums[1] <= 0:
                return None
            L, xs = nums[0] - 40 * nums[1], [nums[0] - nums[1], nums[0] + 0.3 * nums[1], nums[0] + 1.5 * nums[1]]
        elif fam == "uniform":
            L, xs = nums[0] - 10.0, [nums[0] + (nums[1] - nums[0]) * k for k in (0.25, 0.5, 0.9)]
        elif fam == "log_normal":
            L, xs = -5.0, [nums[0] * k for k in (0.5, 1.0, 2.0)]
        elif fam == "poisson":
            L, xs = -5.0, [nums[0] * k for k in (0.8, 1.0, 1.2)]
        elif fam == "flory_schulz":
            if nums[0] < 2e-3:
                return None
            L, xs = -5.0, [k / nums[0] for k in (0.5, 1.0, 3.0)]
        elif fam == "schulz_zimm":
            if nums[1] > 5000 or nums[0] >= 2 * nums[1]:
                return None
            L, xs = -5.0, [nums[1] * k for k in (0.5, 1.0, 2.0)]
        else:
            return None
        out = []
        for x in xs:
            r = RememberAdd(float(L))
            r += float(x) - float(L)
            out.append(repr(float(dist.prob_mw(r))))
        return tuple(out)
    except Exception:
        return None


def compare_dist(lib_dist, d, where, P="c02"):
    out = []
    got = dist_fields(lib_dist)
    if d is None:
        if got is not None:
            out.append(V(f"{P}.dist-unexpected", f"{where}: distribution {got} although none was written"))
        return out
    if got is None:
        return [V(f"{P}.dist-missing", f"{where}: no distribution, written {d.to_text()}")]
    fam, nums = got
    if fam != d.family:
        out.append(V(f"{P}.dist-family", f"{where}: family {fam}, written {d.family}"))
    elif len(nums) != len(d.params) or not all(feq(float(a), float(b)) for a, b in zip(nums, d.params)):
        nonint = d.family == "uniform" and any(float(p) != int(p) for p in d.params)
        out.append(V(f"{P}.dist-params" + (".uniform-noninteger-bounds" if nonint else ""), f"{where}: parameters {nums}, written {tuple(d.params)}"))
    cls = {"gauss": "Gauss", "uniform": "Uniform", "schulz_zimm": "SchulzZimm", "log_normal": "LogNormal", "poisson": "Poisson", "flory_schulz": "FlorySchulz"}[d.family]
    if type(lib_dist).__name__ != cls:
        out.append(V(f"{P}.dist-class", f"{where}: object of class {type(lib_dist).__name__} for family {d.family}"))
    return out


def compare_stoch(lib_s, s: StochAst, text, where="stochastic", P="c02", sp=0, tdo=True):
    out = []
    out += compare_desc(lib_s.left_terminal, s.left, f"{where} left terminal", order=s.left.order if s.left.sym else None, P=P)
    out += compare_desc(lib_s.right_terminal, s.right, f"{where} right terminal", order=s.right.order if s.right.sym else None, P=P)
    for kind, lib_toks, toks in (("repeat", lib_s.repeat_tokens, s.repeats), ("end", lib_s.end_tokens, s.ends)):
        if len(lib_toks) != len(toks):
            out.append(V(f"{P}.token-count", f"{where}: {len(lib_toks)} {kind} tokens, written {len(toks)}"))
            continue
        for i, (lt, t) in enumerate(zip(lib_toks, toks)):
            out += compare_token(lt, t, t.to_text(True, (sp >> 6) & 3, tdo), f"{where} {kind}#{i}", P=P)
    out += compare_dist(lib_s.distribution, s.dist, where, P=P)
    return out


def expected_insertions(m: MolAst):
    """Which descriptors the library is documented to insert on prefix / connector / suffix tokens.
    Returns per element index (front, back) lists of expected (sym, id, weight, order)."""
    ins = {}
    els = m.elements
    for i, e in enumerate(els):
        if not isinstance(e, TokenAst):
            continue
        nd = len(e.descriptors())
        front, back = [], []
        prev = els[i - 1] if i > 0 else None
        nxt = els[i + 1] if i + 1 < len(els) else None
        if isinstance(prev, StochAst) and nd == 0:
            r = prev.right
            front.append((r.sym, r.id, 1.0, r.order))
        have = nd + len(front)
        if isinstance(nxt, StochAst):
            need = 1 if prev is None else 2
            if have < need:
                l = nxt.left
                back.append((l.sym, l.id, 0.0, l.order))
        ins[i] = (front, back)
    return ins


def compare_molecule(lib_m, m: MolAst, where="molecule", P="c02", sp=0, tdo=False):
    out = []
    els = lib_m.elements
    if len(els) != len(m.elements):
        return [V(f"{P}.element-count", f"{where}: {len(els)} elements, written {len(m.elements)}")]
    ins = expected_insertions(m)
    for i, (le, e) in enumerate(zip(els, m.elements)):
        kind = type(le).__name__
        if isinstance(e, TokenAst):
            if kind != "SmilesToken":
                out.append(V(f"{P}.element-kind", f"{where} element {i}: {kind}, written a token"))
                continue
            front, back = ins[i]
            text = e.to_text(True, 0, tdo)
            full = "".join(f"[{s}{'' if d is None else d}]" for s, d, w, o in front) + text + "".join(f"[{s}{'' if d is None else d}|0|]" for s, d, w, o in back)
            out += compare_token(le, e, full, f"{where} element {i}", P=P, extra_front=len(front), extra_back=len(back))
            lds = list(le.bond_descriptors)
            if len(lds) == len(front) + len(e.descriptors()) + len(back):
                rd = read_token(full)
                for k, (s_, id_, w_, o_) in enumerate(front):
                    f = desc_fields(lds[k])
                    if (f["sym"], f["id"]) != (s_, id_) or f["atom"] != rd.desc_atom[k]:
                        out.append(V(f"{P}.inserted-front", f"{where} element {i}: inserted descriptor {f}, expected symbol {s_} id {id_} on atom {rd.desc_atom[k]}"))
                for k, (s_, id_, w_, o_) in enumerate(back):
                    kk = len(lds) - len(back) + k
                    f = desc_fields(lds[kk])
                    if (f["sym"], f["id"]) != (s_, id_) or f["weight"] != 0.0 or f["atom"] != rd.desc_atom[kk]:
                        out.append(V(f"{P}.inserted-back", f"{where} element {i}: inserted descriptor {f}, expected symbol {s_} id {id_} weight 0 on atom {rd.desc_atom[kk]}"))
        else:
            if kind != "Stochastic":
                out.append(V(f"{P}.element-kind", f"{where} element {i}: {kind}, written a stochastic object"))
                continue
            out += compare_stoch(le, e, None, f"{where} element {i}", P=P, sp=sp, tdo=tdo)
    out += compare_mixture(lib_m.mixture, m.mixture, where, P=P)
    return out


def compare_mixture(lib_mix, mix, where, P="c02"):
    if mix is None:
        if lib_mix is not None and (lib_mix.absolute_mass is not None or lib_mix.relative_mass is not None):
            return [V(f"{P}.mixture-unexpected", f"{where}: mixture {lib_mix.absolute_mass}/{lib_mix.relative_mass} although none written")]
        return []
    if lib_mix is None:
        return [V(f"{P}.mixture-missing", f"{where}: no mixture, written {mix}")]
    kind, x = mix
    got = lib_mix.absolute_mass if kind == "abs" else lib_mix.relative_mass
    if got is None or not feq(float(got), float(x)):
        return [V(f"{P}.mixture-value", f"{where}: mixture {kind} = {got}, written {x}")]
    return []


def molecules_of(lib_sys):
    mols = getattr(lib_sys, "_molecules", None)
    if mols is None:
        raise HarnessBug("System has no _molecules attribute any more; the harness needs a component accessor")
    return mols


# ------------------------------------------------------------------ fingerprints (C01, C10) --
def fp_desc(bd, weights=True):
    f = desc_fields(bd)
    t = (f["sym"], f["id"], f["order"], f["atom"])
    if weights:
        t += (f["weight"], None if f["transitions"] is None else tuple(f["transitions"]))
    return t


def fp_token(tok, weights=True):
    return ("token", tuple(a.generate_string(False) for a in tok.atoms), tuple(fp_desc(b, weights) for b in tok.bond_descriptors), tok.generate_smiles_fragment())


def fp_stoch(s, weights=True):
    return (
        "stochastic",
        fp_desc(s.left_terminal, weights)[:3] + (fp_desc(s.left_terminal, weights)[4:] if weights else ()),
        fp_desc(s.right_terminal, weights)[:3] + (fp_desc(s.right_terminal, weights)[4:] if weights else ()),
        tuple(fp_token(t, weights) for t in s.repeat_tokens),
        tuple(fp_token(t, weights) for t in s.end_tokens),
        dist_fields(s.distribution) if weights else None,
        dist_behaviour(s.distribution) if weights else None,
    )


def fp_element(e, weights=True):
    return fp_token(e, weights) if type(e).__name__ == "SmilesToken" else fp_stoch(e, weights)


def fp_mixture(mx):
    if mx is None:
        return None
    return (mx.absolute_mass, mx.relative_mass, mx.system_mass)


def fp_mol(m, weights=True):
    return ("molecule", tuple(fp_element(e, weights) for e in m.elements), fp_mixture(m.mixture) if weights else None, bool(m.generable) if weights else None)


def fp_sys(s, weights=True):
    return ("system", tuple(fp_mol(m, weights) for m in molecules_of(s)), bool(s.generable) if weights else None)


def fp_any(o, weights=True):
    n = type(o).__name__
    if n == "BondDescriptor":
        return fp_desc(o, weights)
    if n == "SmilesToken":
        return fp_token(o, weights)
    if n == "Stochastic":
        return fp_stoch(o, weights)
    if n == "Molecule":
        return fp_mol(o, weights)
    if n == "System":
        return fp_sys(o, weights)
    raise HarnessBug(f"no fingerprint for {n}")


def fp_diff(a, b, path=""):
    """first differing path between two nested fingerprints, numbers compared at 1e-9 relative"""
    if isinstance(a, (tuple, list)) and isinstance(b, (tuple, list)):
        if len(a) != len(b):
            return f"{path}: length {len(a)} vs {len(b)}"
        for i, (x, y) in enumerate(zip(a, b)):
            d = fp_diff(x, y, f"{path}/{x if isinstance(x, str) and i == 0 else i}")
            if d:
                return d
        return None
    if isinstance(a, float) and isinstance(b, float):
        if a == b or abs(a - b) <= 1e-9 * max(abs(a), abs(b)) or (math.isnan(a) and math.isnan(b)):
            return None
        return f"{path}: {a!r} vs {b!r}"
    if a != b:
        return f"{path}: {a!r} vs {b!r}"
    return None
