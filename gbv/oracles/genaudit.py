"""Quiescent-point audit of a returned MolGen against the AST (C04 end-of-run, C05, C06).

Verify-a-hint: the partition of atoms into residue instances is *hinted* by the PDB residue number on
the atoms (contiguous runs, split by the token's atom count) and then *verified* against the AST
fragments; verification is sound whatever the hint."""
import collections

from rdkit import Chem

from ..ref import compat as rc
from ..ref.model import CStoch, CTok
from ..ref.token import atom_sig, order_of

ORGANIC_VALENCES = {5: (3,), 6: (4,), 7: (3, 5), 8: (2,), 15: (3, 5), 16: (2, 4, 6), 9: (1,), 17: (1,), 35: (1,), 53: (1,)}


def V(cls, msg, **kw):
    d = {"cls": cls, "msg": msg}
    d.update(kw)
    return d


def token_table(M, cm):
    """res_id -> model token, from the parsed object (element order / token positions) -- the parser assigns res ids"""
    tab = {}
    for i, (le, ce) in enumerate(zip(M.elements, cm.elements)):
        if isinstance(ce, CTok):
            tab[le.res_id] = ce
        else:
            for lt, ct in zip(le.repeat_tokens, ce.repeats):
                tab[lt.res_id] = ct
            for lt, ct in zip(le.end_tokens, ce.ends):
                tab[lt.res_id] = ct
    return tab


def partition(mol, tab):
    """hinted partition: [(token, first atom index)] or raises ValueError"""
    inst = []
    i, n = 0, mol.GetNumAtoms()
    while i < n:
        info = mol.GetAtomWithIdx(i).GetPDBResidueInfo()
        if info is None:
            raise ValueError(f"atom {i} carries no residue info")
        rid = info.GetResidueNumber()
        if rid not in tab:
            raise ValueError(f"atom {i} names residue {rid}, which no token of the string has")
        tok = tab[rid]
        inst.append((tok, i))
        i += tok.reading.n_atoms
    if i != n:
        raise ValueError("residue blocks do not add up to the atom count")
    return inst


def audit(M, cm, g, events=None, closable=False, scope_first_may_be_end=False):
    """returns (violations, facts)"""
    out = []
    facts = {}
    # ---------------------------------------------------------------- C05: sanitisation
    sanitised = True
    try:
        mol = g.mol
    except Exception as exc:
        # the molecule cannot be sanitised: the structural clauses (partition, bonds at descriptor atoms) are still decided on the raw molecule
        out.append(V("c05.not-sanitisable", f"returned molecule fails sanitisation: {type(exc).__name__}: {exc}"))
        sanitised = False
        mol = getattr(g, "_mol", None)
        if mol is None:
            return out, facts
        try:
            mol.UpdatePropertyCache(strict=False)
        except Exception:
            pass
    tab = token_table(M, cm)
    try:
        inst = partition(mol, tab)
    except ValueError as exc:
        return [V("c05.no-residue-partition", f"atoms do not partition into whole residue instances: {exc}")], facts
    n_inst = len(inst)
    block_of = {}
    for k, (tok, off) in enumerate(inst):
        for a in range(tok.reading.n_atoms):
            block_of[off + a] = k
    # verify each instance against the AST fragment
    for k, (tok, off) in enumerate(inst):
        rd = tok.reading
        got = [atom_sig(mol.GetAtomWithIdx(off + a)) for a in range(rd.n_atoms)]
        if got != rd.atoms:
            out.append(V("c05.residue-atoms-differ", f"residue instance {k} ({tok.text}) has atoms {got}, the token has {rd.atoms}"))
    inner = collections.defaultdict(dict)
    cross = {}
    for b in mol.GetBonds():
        i, j = sorted((b.GetBeginAtomIdx(), b.GetEndAtomIdx()))
        bi, bj = block_of[i], block_of[j]
        if bi == bj:
            inner[bi][(i - inst[bi][1], j - inst[bi][1])] = order_of(b)
        else:
            if (i, j) in cross:
                out.append(V("c05.duplicate-bond", f"two bonds between atoms {i},{j}"))
            cross[(i, j)] = order_of(b)
    for k, (tok, off) in enumerate(inst):
        if inner[k] != tok.reading.bonds:
            out.append(V("c05.residue-bonds-differ", f"residue instance {k} ({tok.text}) has internal bonds {sorted(inner[k].items())}, the token has {sorted(tok.reading.bonds.items())}"))
    # residue tree
    redges = collections.Counter()
    for (i, j) in cross:
        redges[tuple(sorted((block_of[i], block_of[j])))] += 1
    if any(c > 1 for c in redges.values()):
        out.append(V("c05.residues-joined-twice", f"residue pairs joined by more than one bond: {[e for e, c in redges.items() if c > 1]}"))
    if len(cross) != n_inst - 1:
        out.append(V("c05.not-a-tree", f"{len(cross)} inter-residue bonds for {n_inst} residues"))
    adj = collections.defaultdict(set)
    for a, b in redges:
        adj[a].add(b)
        adj[b].add(a)
    seen, stack = {0}, [0]
    while stack:
        x = stack.pop()
        for y in adj[x]:
            if y not in seen:
                seen.add(y)
                stack.append(y)
    if len(seen) != n_inst:
        out.append(V("c05.not-connected", f"only {len(seen)} of {n_inst} residues are connected"))
    if len(Chem.GetMolFrags(mol)) != 1:
        out.append(V("c05.not-connected", f"molecule has {len(Chem.GetMolFrags(mol))} pieces"))
    # MolGen.graph must be the same tree
    try:
        ge = set(tuple(sorted(e)) for e in g.graph.edges())
        if len(g.graph) != n_inst or ge != set(redges):
            import networkx as nx

            H = nx.Graph()
            H.add_nodes_from(range(n_inst))
            H.add_edges_from(redges)
            if not nx.is_isomorphic(g.graph, H):
                out.append(V("c05.residue-graph-differs", f"MolGen.graph ({len(g.graph)} nodes, {len(ge)} edges) is not the residue tree derived from the atoms ({n_inst} nodes, {len(redges)} edges)"))
    except Exception as exc:
        out.append(V("c05.residue-graph-differs", f"MolGen.graph unreadable: {exc}"))
    # hydrogens of atoms written without brackets
    for k, (tok, off) in enumerate(inst if sanitised else []):
        texts = atom_texts(tok)
        for a, txt in enumerate(texts):
            if txt.startswith("["):
                continue
            at = mol.GetAtomWithIdx(off + a)
            if at.GetIsAromatic():
                continue
            vals = ORGANIC_VALENCES.get(at.GetAtomicNum())
            if not vals:
                continue
            bo = sum(order_of(b) for b in at.GetBonds())
            want = None
            for v in vals:
                if v >= bo:
                    want = int(round(v - bo))
                    break
            if want is None or at.GetTotalNumHs() != want or at.GetNumRadicalElectrons() != 0:
                out.append(V("c05.hydrogen-count", f"atom {off + a} ({txt} in {tok.text}) has {at.GetTotalNumHs()} H and {at.GetNumRadicalElectrons()} radical electrons with bond order sum {bo}; the organic-subset rule gives {want}"))
    # mass
    want_mass = sum(tok.mass for tok, _ in inst)
    try:
        got_mass = g.weight
    except Exception:
        got_mass = want_mass
    if abs(got_mass - want_mass) > 1e-6 * max(1.0, want_mass):
        out.append(V("c05.mass-differs", f"MolGen.weight {got_mass!r}, sum of residue heavy masses {want_mass!r}"))
    facts.update(n_residues=n_inst, n_tokens=len(set(id(t) for t, _ in inst)), multi_atom=any(t.reading.n_atoms > 1 for t, _ in inst), inst=[(t.key, off) for t, off in inst], cross=cross)

    # ---------------------------------------------------------------- C04: every bond joins two atoms that carry (in the NOTATION, read by
    # the reference reader, not by the library's parser) mutually compatible descriptors of the bond's order, each descriptor used once
    used_at = collections.Counter()
    for (i, j), od in cross.items():
        (ti, oi), (tj, oj) = inst[block_of[i]], inst[block_of[j]]
        ci = [d for d in ti.descs if d.atom == i - oi]
        cj = [d for d in tj.descs if d.atom == j - oj]
        used_at[i] += 1
        used_at[j] += 1
        wrong = [(x, o, t) for (x, o, t) in ((i, oi, ti), (j, oj, tj)) if atom_sig(mol.GetAtomWithIdx(x)) != t.reading.atoms[x - o]]
        if wrong:
            x, o, t = wrong[0]
            out.append(V("c04.bond-on-an-atom-that-is-not-the-descriptor-atom", f"bond {(i, j)}: position {x - o} of the instance of {t.text} holds {atom_sig(mol.GetAtomWithIdx(x))}, the notation writes {t.reading.atoms[x - o]} there (the atom that carries the descriptor): the bond sits on another atom of the residue"))
        elif not ci or not cj:
            who = [f"atom {x - o} of {t.text}" for (x, o, t, c) in ((i, oi, ti, ci), (j, oj, tj, cj)) if not c]
            out.append(V("c04.bond-at-atom-without-descriptor", f"bond {(i, j)} between residues {block_of[i]} and {block_of[j]} sits on {' and '.join(who)}, where the notation writes no bond descriptor"))
        elif not any(rc.compat(a.triple, b.triple) and abs(a.order - od) < 1e-9 for a in ci for b in cj):
            out.append(V("c04.bond-between-incompatible-written-descriptors", f"bond {(i, j)} of order {od} joins {ti.text} atom {i - oi} (descriptors {[d.triple for d in ci]}) and {tj.text} atom {j - oj} (descriptors {[d.triple for d in cj]}): no compatible pair of that order"))
    for k, (tok, off) in enumerate(inst):
        room = collections.Counter(d.atom for d in tok.descs)
        for a, n_written in room.items():
            if used_at.get(off + a, 0) > n_written:
                out.append(V("c04.descriptor-atom-overused", f"atom {a} of residue {k} ({tok.text}) carries {used_at[off + a]} inter-residue bonds but only {n_written} descriptors are written on it"))
    facts["notation_bonds_checked"] = len(cross)

    # ---------------------------------------------------------------- C04: every bond explained by an attach event
    if events is not None:
        hist = getattr(g, "_gbv_hist", None)
        if hist is None:
            facts["hist_missing"] = True
        else:
            expl = {}
            for eid in hist:
                e = events[eid]
                if e["k"] == "attach":
                    expl[tuple(sorted((e["a1"], e["a2"])))] = e
            facts["attach_events"] = len(expl)
            for key, od in cross.items():
                e = expl.get(key)
                if e is None:
                    out.append(V("c04.unexplained-bond", f"bond {key} between residues is explained by no attach event"))
                elif od != e["order"]:
                    out.append(V("c04.bond-order-differs", f"bond {key} has order {od}, its descriptors {e['d1']} {e['d2']} prescribe {e['order']}"))
            for key in expl:
                if key not in cross:
                    out.append(V("c04.attach-without-bond", f"attach event on atoms {key} left no inter-residue bond"))
            facts["expl"] = expl

    # ---------------------------------------------------------------- C06: completeness and order
    if closable:
        out += audit_c06(M, cm, g, inst, block_of, cross, facts.get("expl"), scope_first_may_be_end)
    return out, facts


def atom_texts(tok):
    """atom texts in written order, read from the token text by the model's own tiny scanner"""
    import re

    t = re.sub(r"\[[$<>][^\]]*\]", "", tok.text)
    texts = re.findall(r"\[[^\]]+\]|Cl|Br|[BCNOPSFIcnosp]", t)
    drop = set(getattr(tok.reading, "merged_h", ()))
    return [x for i, x in enumerate(texts) if i not in drop]


def audit_c06(M, cm, g, inst, block_of, cross, expl, scope_first_may_be_end):
    out = []
    if not g.fully_generated:
        out.append(V("c06.not-fully-generated", f"well-posed molecule returned with {len(g.bond_descriptors)} open descriptors"))
    # every descriptor formed exactly one bond: per attachment atom, #inter-residue bonds == #descriptors written on it
    cross_at = collections.Counter()
    for (i, j) in cross:
        cross_at[i] += 1
        cross_at[j] += 1
    for k, (tok, off) in enumerate(inst):
        want = collections.Counter(d.atom for d in tok.descs)
        for a in range(tok.reading.n_atoms):
            if cross_at.get(off + a, 0) != want.get(a, 0):
                out.append(V("c06.descriptor-bond-count", f"atom {a} of residue {k} ({tok.text}) has {cross_at.get(off + a, 0)} inter-residue bonds but {want.get(a, 0)} descriptors"))
                break
    # element bookkeeping
    elem_of = [tok.key[0] for tok, _ in inst]
    per_elem = collections.defaultdict(list)
    for k, (tok, off) in enumerate(inst):
        per_elem[tok.key[0]].append(k)
    for i, ce in enumerate(cm.elements):
        ks = per_elem.get(i, [])
        if isinstance(ce, CTok):
            if len(ks) != 1:
                out.append(V("c06.token-element-count", f"element {i} (token {ce.text}) occurs {len(ks)} times"))
        else:
            reps = [k for k in ks if inst[k][0].kind == "repeat"]
            if not reps and not (scope_first_may_be_end and ks):
                out.append(V("c06.no-repeat-unit", f"stochastic element {i} contributed {len(reps)} repeat units ({len(ks)} residues)"))
    between = collections.defaultdict(list)
    for (a, b), od in cross.items():
        ea, eb = elem_of[block_of[a]], elem_of[block_of[b]]
        if ea != eb:
            lo, hi = (ea, eb) if ea < eb else (eb, ea)
            between[(lo, hi)].append((a, b) if ea < eb else (b, a))
    for (lo, hi), bonds in between.items():
        if hi != lo + 1:
            out.append(V("c06.non-adjacent-elements-bonded", f"elements {lo} and {hi} are bonded directly"))
    for i in range(len(cm.elements) - 1):
        bonds = between.get((i, i + 1), [])
        if len(bonds) != 1:
            out.append(V("c06.consecutive-elements-bond-count", f"elements {i} and {i + 1} are joined by {len(bonds)} bonds"))
            continue
        if expl is not None:
            a, b = bonds[0]
            e = expl.get(tuple(sorted((a, b))))
            if e is not None:
                dl, dr = (e["d1"], e["d2"]) if e["a1"] == a else (e["d2"], e["d1"])
                left, right = cm.elements[i], cm.elements[i + 1]
                if isinstance(left, CStoch) and left.right.sym and not rc.compat((left.right.sym, left.right.id, dl[2]), dl):
                    out.append(V("c06.handover-not-through-right-terminal", f"element {i} handed over through {dl}, its right terminal is {left.right.bare}"))
                if isinstance(right, CStoch) and right.left.sym:
                    if (dl[0], dl[1]) != (right.left.sym, right.left.id):
                        out.append(V("c06.handover-not-through-left-terminal", f"element {i + 1} was entered with {dl}, its left terminal is {right.left.bare}"))
    # end groups are leaves
    deg = collections.Counter()
    for (a, b) in cross:
        deg[block_of[a]] += 1
        deg[block_of[b]] += 1
    for k, (tok, off) in enumerate(inst):
        if tok.kind == "end" and deg[k] > 1:
            out.append(V("c06.end-group-not-leaf", f"end-group instance {k} ({tok.text}) has {deg[k]} neighbours"))
    return out
