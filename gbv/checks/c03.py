"""C03 -- descriptor compatibility is exactly the BigSMILES conjugation rule.

The quantifier is finite and is enumerated completely in both tiers: every ordered pair over
{[], $, <, >} x ids {none, 0..12} x prefixes {none,-,=,#,:} x weight forms {none, scalar, list}.
Every library object is built twice, through the constructor and through token parsing (so the
"bond order from the characters in front of the descriptor" path is the real one)."""
import itertools
import random

from ..ref.compat import ORDER_OF_PREFIX, compat

ID = "C03"
LEVEL = "exploration"
EXHAUSTIVE = True
RULE = (
    "all 840x840 ordered index pairs of the descriptor universe (symbol x id x prefix x weight form); '[]' admits no id/weight "
    "in the notation so its 210 formal combinations collapse onto 5 objects (635 distinct descriptors, 403225 distinct ordered pairs); "
    "a pair is non-trivial when both descriptors are non-empty; distinct_nontrivial counts distinct ordered pairs of distinct non-empty descriptors. "
    "Each descriptor is built by the constructor and by parsing a token 'C<prefix>[...]'; both builds must answer identically. The candidate filter "
    "(get_compatible_bond_descriptor_ids) and the weighted pick built on it (choose_compatible_weight, with hostile weights: every compatible candidate 0 "
    "or 1e-12 next to heavy incompatible ones, all zero, random) are driven on random sub-lists: weights must never let an incompatible candidate through."
)
ASSUMPTIONS = ["ids above 12 and stereo prefixes (/, \\, @: rejected by the constructor) are outside the enumerated universe"]
SYMS = ["", "$", "<", ">"]
IDS = [None] + list(range(13))
PREFIXES = ["", "-", "=", "#", ":"]
WFORMS = ["none", "scalar", "list"]
ROWS_PER_CASE = 24
CASE_TIMEOUT = 600


def universe():
    return list(itertools.product(SYMS, IDS, PREFIXES, WFORMS))


def text_of(spec, k=0):
    sym, i, pre, wf = spec
    if sym == "":
        return "[]"
    t = "[" + sym + ("" if i is None else str(i))
    if wf == "scalar":
        t += "|" + ["2.", "0.5", "7", "3e0"][k % 4] + "|"
    elif wf == "list":
        t += "|" + ["1. 2. 3.", "0 4", "2 2 2 2"][k % 3] + "|"
    return t + "]"


def triple(spec):
    sym, i, pre, wf = spec
    if sym == "":
        return ("", None, 0.0)
    return (sym, i, ORDER_OF_PREFIX[pre])


def build(spec, k):
    """returns (constructor-built, token-parsed or None)"""
    from gbigsmiles import BondDescriptor, SmilesToken

    sym, i, pre, wf = spec
    txt = text_of(spec, k)
    a = BondDescriptor(txt, 0, pre, 0)
    out = [a]
    if sym != "":
        # the same descriptor parsed in several positions of a token: after an atom, after a ring-closure digit (one- and two-digit), alone in
        # a branch, after a closed branch, first in the token (bond character behind it) -- the bond order must not depend on the neighbourhood
        contexts = ["C" + pre + txt, "C1CC1" + pre + txt, "C%12CC%12" + pre + txt, "C(" + pre + txt + ")C", "CC(C)" + pre + txt, txt + pre + "C", "C(C)(" + pre + txt + ")C"]
        for ctx in [contexts[0], contexts[1 + (k % (len(contexts) - 1))]]:
            tok = SmilesToken(ctx, 0, 0)
            assert len(tok.bond_descriptors) == 1
            out.append(tok.bond_descriptors[0])
    else:
        out.append(None)
    return tuple(out)


def plan(tier, seed):
    n = len(universe())
    cases = [{"rows": list(range(s, min(n, s + ROWS_PER_CASE))), "seed": seed} for s in range(0, n, ROWS_PER_CASE)]
    # in-situ: the postcondition on is_compatible watches every call the library itself makes
    for i in range(16 if tier == "quick" else 200):
        cases.append({"insitu": True, "seed": seed * 1000081 + i})
    return cases


_CACHE = {}


def _objects(seed):
    if seed not in _CACHE:
        U = universe()
        _CACHE[seed] = (U, [build(s, idx + seed) for idx, s in enumerate(U)])
    return _CACHE[seed]


def run_insitu(case):
    """generation, both graphs and the ensemble-probability search under the is_compatible contract"""
    import collections

    import gbigsmiles

    from .. import workloads as W
    from ..monitors import trace

    W.install()
    cnt = collections.Counter()
    viol = []
    for k in range(5):
        try:
            subj = W.Subject(case["seed"] * 31 + k, small=(k % 2 == 0), mean_units=3)
            subj.parse()
        except Exception:
            continue
        for op in ("generate", "reaction_graph", "atom_graph"):
            trace.reset()
            try:
                if op == "generate":
                    W.observe_generation(subj.lib, W.spy(k), budget=subj.residue_budget())
                elif op == "reaction_graph":
                    subj.lib.gen_reaction_graph()
                else:
                    subj.lib.gen_stochastic_atom_graph(expect_schulz_zimm_distribution=False)
            except Exception:
                pass
            for v in trace.violations:
                if v["cls"].startswith("c03."):
                    viol.append(dict(v, text=subj.text, op=op))
            cnt["insitu_operations"] += 1
    c = trace.take_counters()
    cnt["insitu_is_compatible_calls"] = c.get("contract.is_compatible", 0)
    return {"viol": viol[:20], "cnt": dict(cnt)}


def run_case(case):
    if case.get("insitu"):
        return run_insitu(case)
    import copy

    import numpy as np
    from gbigsmiles.core import choose_compatible_weight, get_compatible_bond_descriptor_ids

    U, objs = _objects(case["seed"])
    viol, cnt = [], {"pairs": 0, "pairs_nonempty": 0, "expected_true": 0, "is_compatible_calls": 0, "filter_calls": 0}
    rng = random.Random(case["seed"] * 1000003 + case["rows"][0])

    def report(cls, msg, a, b):
        if len(viol) < 40:
            viol.append({"cls": cls, "msg": msg, "a": text_of(a), "a_prefix": a[2], "b": text_of(b), "b_prefix": b[2]})

    for i in case["rows"]:
        sa = U[i]
        ta = triple(sa)
        for j, sb in enumerate(U):
            tb = triple(sb)
            want = compat(ta, tb)
            cnt["pairs"] += 1
            cnt["evaluations"] = cnt.get("evaluations", 0) + 1
            if sa[0] and sb[0]:
                cnt["pairs_nonempty"] += 1
            cnt["expected_true"] += int(want)
            answers = []
            for oa in objs[i]:
                for ob in objs[j]:
                    if oa is None or ob is None:
                        continue
                    try:
                        got = bool(oa.is_compatible(ob))
                        back = bool(ob.is_compatible(oa))
                    except Exception as exc:  # an error is not an answer
                        report("c03.is_compatible-raises", f"{type(exc).__name__}: {exc}", sa, sb)
                        continue
                    cnt["is_compatible_calls"] += 2
                    answers.append(got)
                    if got != back:
                        report("c03.asymmetric", f"a.is_compatible(b)={got} but b.is_compatible(a)={back}", sa, sb)
                    if got != want:
                        kind = "accepts-forbidden" if got else "rejects-allowed"
                        detail = "empty" if not (sa[0] and sb[0]) else ("symbol" if (ta[1] == tb[1] and ta[2] == tb[2]) else ("id" if ta[2] == tb[2] else "order"))
                        report(f"c03.{kind}.{detail}", f"is_compatible({text_of(sa)} prefix '{sa[2]}', {text_of(sb)} prefix '{sb[2]}') = {got}, conjugation rule says {want}", sa, sb)
            if len(set(answers)) > 1:
                report("c03.build-path-dependent", f"constructor-built and token-parsed descriptors answer differently: {answers}", sa, sb)
        # candidate filter on a random sub-list
        for _ in range(3):
            idxs = [rng.randrange(len(U)) for _ in range(rng.randint(1, 12))]
            lst = [objs[k][rng.randrange(len(objs[k]))] or objs[k][0] for k in idxs]
            for probe in objs[i]:
                if probe is None:
                    continue
                got = sorted(int(x) for x in get_compatible_bond_descriptor_ids(lst, probe))
                want = [n for n, k in enumerate(idxs) if compat(ta, triple(U[k]))]
                cnt["filter_calls"] += 1
                if got != want:
                    report("c03.filter-differs", f"get_compatible_bond_descriptor_ids gave {got}, rule gives {want} for probe {text_of(sa)}", sa, sa)
            got = sorted(int(x) for x in get_compatible_bond_descriptor_ids(lst, None))
            if got != list(range(len(lst))):
                report("c03.filter-none-differs", f"bond=None must select all indices, got {got}", sa, sa)
            # the weighted pick built on that filter: whatever the weights (all compatible candidates 0 next to heavy incompatible ones,
            # tiny, huge), the chosen candidate must be compatible with the probe; no compatible candidate => an error, never a pick
            probe = next((o for o in objs[i] if o is not None), None)
            if probe is not None:
                want = [n for n, k in enumerate(idxs) if compat(ta, triple(U[k]))]
                mode = rng.choice(["compatible-zero", "random", "compatible-tiny", "all-zero"])
                lst2 = [copy.deepcopy(o) for o in lst]
                for n, o in enumerate(lst2):
                    if getattr(o, "transitions", None) is not None:
                        o.transitions = None
                    if mode == "compatible-zero":
                        o.weight = 0.0 if n in want else rng.choice([1.0, 5.0, 100.0])
                    elif mode == "compatible-tiny":
                        o.weight = 1e-12 if n in want else 1e6
                    elif mode == "all-zero":
                        o.weight = 0.0
                    else:
                        o.weight = rng.choice([0.0, 0.5, 1.0, 3.0])
                for rep in range(3):
                    cnt["weighted_pick_calls"] = cnt.get("weighted_pick_calls", 0) + 1
                    try:
                        k = int(choose_compatible_weight(lst2, probe, np.random.default_rng(case["seed"] * 7 + rep)))
                    except Exception:
                        if want:
                            cnt["weighted_pick_raised_with_candidates"] = cnt.get("weighted_pick_raised_with_candidates", 0) + 1
                        continue
                    if k not in want:
                        report("c03.weighted-pick-incompatible", f"choose_compatible_weight picked candidate {k} = {lst2[k]} (weights {[o.weight for o in lst2]}, mode {mode}) for probe {text_of(sa)} prefix '{sa[2]}'; compatible candidates are {want}", sa, sa)
                        break
    out = {"viol": viol, "cnt": cnt}
    if case["rows"][0] == 0:
        out["sample"] = {"pair": [text_of(U[30]), text_of(U[500])], "prefixes": [U[30][2], U[500][2]], "rule_says": compat(triple(U[30]), triple(U[500]))}
    return out


def finalize(datas, cnt, nt, tier, seed):
    U = universe()
    distinct = {(text_of(s), s[2]) if s[0] else ("[]", s[2]) for s in U}
    nonempty = [d for d in distinct if d[0] != "[]"]
    res = {"coverage": {"distinct_descriptors": len(distinct), "distinct_nontrivial": len(nonempty) * (len(nonempty) - 1), "universe_pairs": len(U) ** 2}}
    if cnt.get("pairs", 0) != len(U) ** 2:
        res["inconclusive"] = [f"only {cnt.get('pairs', 0)} of {len(U) ** 2} pairs were evaluated"]
    if cnt.get("insitu_is_compatible_calls", 0) == 0:
        res.setdefault("inconclusive", []).append("the in-situ is_compatible contract was never evaluated")
    if cnt.get("expected_true", 0) == 0 or cnt.get("is_compatible_calls", 0) == 0:
        res.setdefault("inconclusive", []).append("monitor never reached")
    return res
