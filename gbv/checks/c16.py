"""C16 -- the reaction graph states the generator's probabilities, normalised at every node."""
import collections
import random

from .. import gen
from .. import workloads as W
from ..monitors import contracts, trace
from ..ref import graphs, model
from ..ref.compat import compat, lib_triple
from ..util import time_limit

ID = "C16"
LEVEL = "exploration"
CASE_TIMEOUT = 900
RULE = (
    "every archetype (incl. explicit connectors with two live descriptors, zero weights, transition lists, left-terminal lists) -> Molecule.gen_reaction_graph(); "
    "node set = one node per token and per descriptor; at EVERY descriptor node the prob / term_prob / trans_prob out-sums are 0 (absent) or 1 (1e-9); "
    "every positive edge value equals the reference selection law's probability for that pick (weights among compatible repeat-unit descriptors, end-group "
    "descriptors, the next element's admissible descriptors, or the listed weights) and joins compatible descriptors; a repeat-unit descriptor without "
    "list whose lawful picks exist must have the edges. Zero-valued edges count as absent. Non-trivial: a graph with all three edge kinds and a "
    "non-uniform node; distinct by input text."
)
ASSUMPTIONS = ["descriptors are matched by (element, token, position); dot export is exercised but its outcome is not part of the verdict"]
FLOORS = {"quick": {"graphs_checked": 3000, "edges_compared": 40000, "distinct_nontrivial": 20}, "thorough": {"graphs_checked": 30000}}


def rgraph_fp(G):
    """order-free fingerprint of a reaction graph: node texts with their numeric attributes, edges between node texts with theirs"""
    import collections as _c

    def attrs(d):
        return tuple(sorted((k, round(float(v), 12)) for k, v in d.items() if isinstance(v, (int, float)) and not isinstance(v, bool)))

    nodes = _c.Counter((type(n).__name__, str(n), attrs(d)) for n, d in G.nodes(data=True))
    edges = _c.Counter((str(u), str(v), attrs(d)) for u, v, d in G.edges(data=True))
    return nodes, edges


def plan(tier, seed):
    n = 192 if tier == "quick" else 1600
    return [{"seed": seed * 1000807 + i, "n": 60} for i in range(n)]


def setup_worker():
    contracts.install()


def special_subject(rng):
    """explicit connector with two live descriptors / all-zero weights -- shapes the archetypes rarely produce"""
    from ..ast import Desc, MolAst, StochAst

    ctx = gen.Ctx(rng, small=True, form="dir")
    u1 = ctx.unit([Desc("<", None, rng.choice([None, 0.0, 2.0])), Desc(">")], style="ends")
    u2 = ctx.unit([Desc("<", None, rng.choice([None, 0.0])), Desc(">")], style="ends")
    s1 = StochAst(Desc(">"), Desc("<"), [u1], [], gen.forced_dist(60))
    mode = rng.choice(["two-live", "zero-units", "suffix-two", "mixed-orders", "mixed-orders"])
    if mode == "mixed-orders":
        # descriptors of one symbol and id but different bond orders in one object (parse / graph only)
        f = rng.choice(["und", "dir"])
        a, b = ("$", "$") if f == "und" else ("<", ">")
        w = lambda: rng.choice([None, 2.0, 3.0, 0.5])  # noqa: E731
        t1 = gen.build_token(rng, rng.choice(["CC", "CCC"]), [Desc(a, None, w()), Desc(b, None, w())], "ends")
        t2 = gen.build_token(rng, rng.choice(["CC", "CCC"]), [Desc(a, None, w()), Desc(b, None, w(), "=")], "ends")
        t3 = gen.build_token(rng, rng.choice(["CC", "CCC"]), [Desc(a, None, w(), "="), Desc(b, None, w(), "=")], "ends")
        e1 = gen.build_token(rng, "O", [Desc(a, None, w(), "=")], "ends")
        e2 = gen.single_atom_token("[H]", Desc(a, None, w()))
        e3 = gen.single_atom_token("F", Desc(b, None, w()))
        units = [t1, t2, t3]
        rng.shuffle(units)
        s0 = StochAst(Desc(""), Desc(""), units, [e1, e2, e3], gen.forced_dist(60))
        return MolAst([s0], arch="special")
    if mode == "two-live":
        conn = ctx.unit([Desc("<"), Desc("<", None, rng.choice([1.0, 3.0, 0.5])), Desc(">", None, 0.0)])
        s2 = StochAst(Desc(">"), Desc("<"), [u2], [], gen.forced_dist(60))
        return MolAst([ctx.plain(), s1, conn, s2, ctx.plain()], arch="special")
    if mode == "suffix-two":
        suf = ctx.unit([Desc("<"), Desc("<", None, rng.choice([3.0, 1.0]))])
        return MolAst([ctx.plain(), s1, suf], arch="special")
    s1.repeats = [u1, u2]
    for t in s1.repeats:
        t.descriptors()[0][0].weight = 0.0
    return MolAst([ctx.plain(), s1, ctx.plain()], arch="special")


def run_case(case):
    import gbigsmiles
    from gbigsmiles.core import reaction_graph_to_dot_string

    rng = random.Random(case["seed"])
    cnt = collections.Counter()
    viol, nt = [], set()
    sample = None
    for k in range(case["n"]):
        try:
            if rng.random() < 0.15:
                ast = special_subject(rng)
            else:
                ast = gen.make_molecule(rng, small=rng.random() < 0.5)
        except ValueError:
            continue
        text = ast.to_text(True, rng.randrange(256))
        try:
            M = gbigsmiles.Molecule(text)
        except Exception as exc:
            cnt["rejected"] += 1
            continue
        cm = model.compile_molecule(ast)
        trace.reset()
        try:
            with time_limit(60):
                G = M.gen_reaction_graph()
        except Exception as exc:
            viol.append({"cls": "c16.graph-construction-raises", "msg": f"gen_reaction_graph raised {type(exc).__name__}: {exc}", "text": text})
            continue
        cnt["graphs_checked"] += 1
        # a function of the notation, not of the object's history: same graph when asked twice; the mirror's graph (taken after this object built
        # its own) equals the graph of a fresh parse of the mirror's text
        if k % 4 == 0:
            try:
                if rgraph_fp(M.gen_reaction_graph()) != rgraph_fp(G):
                    viol.append({"cls": "c16.graph-differs-between-calls", "msg": "two calls of gen_reaction_graph on one object gave different graphs", "text": text})
                mir = M.gen_mirror()
                if mir is not None:
                    mt = str(mir)
                    try:
                        fresh = gbigsmiles.Molecule(mt)
                    except Exception:
                        fresh = None
                    if fresh is not None:
                        cnt["mirror_graphs_compared"] += 1
                        if rgraph_fp(mir.gen_reaction_graph()) != rgraph_fp(fresh.gen_reaction_graph()):
                            viol.append({"cls": "c16.graph-of-mirror-differs-from-fresh-parse", "msg": f"after this object built its reaction graph, the graph of its mirror {mt!r} differs from the graph of a fresh parse of that text", "text": text})
            except Exception:
                cnt["mirror_probe_raised"] += 1
        # map library objects to model keys
        key_of = {}
        lib_tokens = []
        for i, (le, ce) in enumerate(zip(M._elements, cm.elements)):
            pairs = [(le, ce)] if isinstance(ce, model.CTok) else list(zip(le.repeat_tokens + le.end_tokens, ce.repeats + ce.ends))
            for lt, ct in pairs:
                lib_tokens.append(lt)
                for lb, d in zip(lt.bond_descriptors, ct.descs):
                    key_of[id(lb)] = (ct.key + (d.idx,), lb)
        n_desc = len(key_of)
        nodes = list(G.nodes())
        tok_nodes = [n for n in nodes if type(n).__name__ == "SmilesToken"]
        bd_nodes = [n for n in nodes if type(n).__name__ == "BondDescriptor"]
        if len(tok_nodes) != len(lib_tokens) or len(bd_nodes) != n_desc or len(nodes) != len(lib_tokens) + n_desc:
            viol.append({"cls": "c16.node-set-differs", "msg": f"{len(tok_nodes)} token nodes and {len(bd_nodes)} descriptor nodes for {len(lib_tokens)} tokens and {n_desc} descriptors", "text": text})
            continue
        if any(id(n) not in key_of for n in bd_nodes):
            viol.append({"cls": "c16.node-set-differs", "msg": "a descriptor node is not a descriptor of the molecule", "text": text})
            continue
        ref, zero = graphs.reaction_graph(cm)
        got = {}
        sums = collections.defaultdict(float)
        kinds_seen = set()
        for u, v, data in G.edges(data=True):
            if type(u).__name__ != "BondDescriptor":
                continue
            for kind in ("prob", "term_prob", "trans_prob"):
                if kind in data:
                    val = float(data[kind])
                    ku, kv = key_of[id(u)][0], key_of[id(v)][0] if id(v) in key_of else None
                    sums[(ku, kind)] += val
                    if val > 0:
                        got[(ku, kv, kind)] = val
                        kinds_seen.add(kind)
                        if kv is None or not compat(lib_triple(u), lib_triple(v)):
                            viol.append({"cls": "c16.edge-between-incompatible-descriptors", "msg": f"{kind} edge {val} from {lib_triple(u)} to {lib_triple(v)}", "text": text})
        # normalisation at every node
        for (ku, kind), s_ in sums.items():
            if not (abs(s_) < 1e-9 or abs(s_ - 1.0) < 1e-9):
                viol.append({"cls": f"c16.not-normalised.{kind}", "msg": f"{kind} probabilities leaving descriptor {ku} sum to {s_!r}", "text": text, "node": ku})
        # mechanism feature: the element after the source carries a transition list on its left terminal
        def lt_list(key):
            i = key[0][0] + 1
            return key[2] == "trans_prob" and i < len(cm.elements) and isinstance(cm.elements[i], model.CStoch) and cm.elements[i].left.transitions is not None

        # values
        nonuniform = False
        for key, val in got.items():
            cnt["edges_compared"] += 1
            want = ref.get(key)
            if want is None:
                ku, kv, kind = key
                # edges leaving end-group descriptors / list descriptors towards picks the model does not define are tolerated only if lawful elsewhere
                viol.append({"cls": f"c16.edge-without-lawful-pick.{kind}" + (".left-terminal-list" if lt_list(key) else ""), "msg": f"{kind} edge {ku} -> {kv} = {val} but generation never makes that pick", "text": text})
            elif abs(want - val) > 1e-9:
                viol.append({"cls": f"c16.edge-value-differs.{key[2]}" + (".left-terminal-list" if lt_list(key) else ""), "msg": f"{key[2]} edge {key[0]} -> {key[1]} = {val!r}, generation picks it with probability {want!r}", "text": text})
        vals_by_node = collections.defaultdict(list)
        for (ku, kv, kind), val in got.items():
            vals_by_node[(ku, kind)].append(val)
        if any(len(v) > 1 and max(v) - min(v) > 1e-9 for v in vals_by_node.values()):
            nonuniform = True
        # lawful picks of repeat-unit descriptors without list must have their edges
        for (ku, kv, kind), want in ref.items():
            if (ku, kv, kind) in got:
                continue
            if ku[1] != "repeat" and kind != "trans_prob":
                continue
            if ku[1] == "end":
                continue
            if abs(sums.get((ku, kind), 0.0)) < 1e-9:
                cls = "c16.pick-without-edge.all-candidate-weights-zero" if (ku, kind) in zero else "c16.pick-without-edge"
                # only descriptors that can really be the open one at a hand-over are required for trans_prob
                if lt_list((ku, kv, kind)):
                    cls = "c16.pick-without-edge.left-terminal-list"
                viol.append({"cls": cls + "." + kind, "msg": f"generation picks {kv} from {ku} with probability {want!r} but descriptor {ku} has no {kind} edge at all", "text": text})
                break
        try:
            reaction_graph_to_dot_string(G, M)
            cnt["dot_export_ok"] += 1
        except Exception:
            cnt["dot_export_raised"] += 1
        if len(kinds_seen) == 3 and nonuniform:
            nt.add(text)
        if sample is None and len(kinds_seen) == 3:
            sample = {"input": text, "nodes": len(nodes), "positive_edges": len(got), "kinds": sorted(kinds_seen)}
    cnt.update(trace.take_counters())
    cnt["evaluations"] = cnt["graphs_checked"]
    seen = collections.Counter()
    out = []
    for v in viol:
        seen[v["cls"]] += 1
        if seen[v["cls"]] <= 5:
            out.append(v)
    return {"viol": out, "nt": sorted(nt), "cnt": dict(cnt), "sample": sample}
