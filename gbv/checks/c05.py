"""C05 -- a generated molecule is a tree of whole, unmodified copies of the written tokens."""
from . import _gen_common as G

ID = "C05"
LEVEL = "exploration"
CASE_TIMEOUT = G.CASE_TIMEOUT
RULE = (
    "every archetype (homo/end-initiated/random/block/alternating/step-growth/star/graft/hyper-branched/transition lists; aromatic, charged, isotopic, "
    "bracket, multi-ring fragments) x random streams (SpyRNG), plus all choice sequences (ScriptedRNG) of bounded instances; every returned molecule is "
    "audited at the quiescent point: residue partition hinted by PDB residue numbers and verified against the AST fragments (elements, charges, isotopes, "
    "internal bonds), residue tree, MolGen.graph, sanitisation, organic-subset hydrogen counts, heavy mass; the attach_other contract checks the same after "
    "every attachment. Non-trivial: >= 3 residues of >= 2 distinct tokens incl. a multi-atom token; distinct by (input, stream)."
)
ASSUMPTIONS = ["inputs bounded by the generator (DESIGN 2.1); generations whose distribution draw fails are skipped and counted (C09/C11)"]
FLOORS = {"quick": {"molecules_audited": 800, "contract.attach_other.post": 8000, "distinct_nontrivial": 300}, "thorough": {"molecules_audited": 15000, "contract.attach_other.post": 150000}}


def plan(tier, seed):
    return G.plan_common(tier, seed, 60 if tier == "quick" else 1200, 40 if tier == "quick" else 400)


def setup_worker():
    G.W.install()


def run_case(case):
    out = G.run_common("c05", case)
    from ..monitors import trace

    out.setdefault("cnt", {}).update(trace.take_counters())
    return out
