"""C18 -- atom-graph generation yields trees of whole residues joined along graph edges."""
import collections
import random

from .. import gen
from ..monitors import contracts, steps, trace
from ..monitors import rng as R
from ..ref import graphs, model
from ..util import StepTimeout, time_limit

ID = "C18"
LEVEL = "exploration"
CASE_TIMEOUT = 1500
RULE = (
    "Schulz-Zimm molecules of every archetype (multi-atom end groups, transition lists) -> gen_stochastic_atom_graph() -> AtomGraph(sag, rng).generate() under "
    "random streams and under all choice sequences (scripted Generator) of bounded graphs. Audit of AtomGraph.graph at the quiescent point: one connected "
    "component; to_mol() sanitises; the nodes partition into residue instances each holding all atoms and static bonds of its token (partition hinted by "
    "node creation order, then VERIFIED; if the hint fails a bounded backtracking search looks for another partition, budget overrun = inconclusive); every "
    "bond between residues has a non-static edge of the same order between the endpoints' template nodes; residues form a tree; generation stays within a "
    "logical line budget; equal seeds give equal molecules. Non-trivial: >= 3 residues incl. a multi-atom end group; distinct by (input, stream)."
)
ASSUMPTIONS = ["runs whose Schulz-Zimm draw raises (C11 known finding) are skipped and counted", "only graphs built with Schulz-Zimm distributions can be generated (library limitation)"]
FLOORS = {"quick": {"molecules_audited": 700, "distinct_nontrivial": 100, "equal_seed_pairs": 100}, "thorough": {"molecules_audited": 15000}}
LINE_BUDGET = 6_000_000


def plan(tier, seed):
    cases = []
    n = 96 if tier == "quick" else 1400
    for i in range(n):
        cases.append({"kind": "random", "seed": seed * 1001003 + i, "mols": 4, "gens": 4})
    n = 36 if tier == "quick" else 300
    for i in range(n):
        cases.append({"kind": "enum", "seed": seed * 1001033 + i, "limit": 250 if tier == "quick" else 3000})
    for i in range(10 if tier == "quick" else 120):
        # graphs whose only start node is NOT in the first written token (initiator / core written after the ordinary units)
        cases.append({"kind": "random", "arch": "initiator", "seed": seed * 1001041 + i, "mols": 4, "gens": 4})
    return cases


def setup_worker():
    contracts.install()


def sz_molecule(rng, small, mean_units):
    return gen.make_molecule(rng, small=small, families=["schulz_zimm"], mean_units=mean_units)


def audit(ag, sag, cm, ref=None):
    """-> (violations, facts).  ag: AtomGraph after generate()"""
    import networkx as nx
    from rdkit import Chem

    out = []
    facts = {}
    G = ag.graph
    T = sag.graph
    ref = ref or graphs.atom_graph(cm)
    node_tok = ref["node_tok"]
    if G.number_of_nodes() == 0:
        return [{"cls": "c18.empty", "msg": "generated graph is empty"}], facts
    if nx.number_connected_components(G) != 1:
        out.append({"cls": "c18.not-connected", "msg": f"{nx.number_connected_components(G)} connected components"})
    try:
        mol = ag.to_mol()
        facts["smiles"] = Chem.MolToSmiles(mol)
        # the molecule handed out must be THIS graph (elements, bonds and their orders), whatever the object did before
        H = nx.Graph()
        for a in mol.GetAtoms():
            H.add_node(a.GetIdx(), z=a.GetAtomicNum())
        for b in mol.GetBonds():
            H.add_edge(b.GetBeginAtomIdx(), b.GetEndAtomIdx(), o=int(b.GetBondType()))
        K = nx.Graph()
        for n, d in G.nodes(data=True):
            K.add_node(n, z=d["atomic_num"])
        for u, v, d in G.edges(data=True):
            K.add_edge(u, v, o=int(d["bond_type"]))
        same = H.number_of_nodes() == K.number_of_nodes() and H.number_of_edges() == K.number_of_edges()
        if same:
            # the library numbers the atoms of the molecule like the nodes of the graph: try that mapping first; a general isomorphism search (VF2 is
            # exponential on large symmetric molecules) only if it does not fit, under its own watchdog -- a search that does not finish is undecided
            order = {n: i for i, n in enumerate(sorted(K.nodes()))}
            direct = all(H.nodes[order[n]]["z"] == d["z"] for n, d in K.nodes(data=True)) and all(H.has_edge(order[u], order[v]) and H[order[u]][order[v]]["o"] == d["o"] for u, v, d in K.edges(data=True))
            if not direct:
                try:
                    with time_limit(20):
                        same = nx.is_isomorphic(H, K, node_match=lambda x, y: x["z"] == y["z"], edge_match=lambda x, y: x["o"] == y["o"])
                except StepTimeout:
                    facts["isomorphism_undecided"] = True
                    same = True
        if not same:
            out.append({"cls": "c18.to_mol-is-not-the-generated-graph", "msg": f"to_mol() returned {facts['smiles']} ({H.number_of_nodes()} atoms, {H.number_of_edges()} bonds), the generated graph has {K.number_of_nodes()} nodes and {K.number_of_edges()} edges and is not isomorphic to it"})
    except Exception as exc:
        out.append({"cls": "c18.not-sanitisable", "msg": f"to_mol() failed: {type(exc).__name__}: {exc}"[:300]})
    tmpl = {n: d["stochastic_node"] for n, d in G.nodes(data=True)}
    for n, d in G.nodes(data=True):
        if d["atomic_num"] != ref["nodes"][tmpl[n]][0]:
            out.append({"cls": "c18.atom-differs-from-template", "msg": f"node {n} has element {d['atomic_num']}, its template atom {tmpl[n]} is {ref['nodes'][tmpl[n]][0]}"})
            break
    # token data
    tok_atoms = collections.defaultdict(list)
    for tn, key in enumerate(node_tok):
        tok_atoms[key].append(tn)
    static = ref["static"]

    def verify(groups):
        """groups: list of lists of graph nodes.  returns list of problems (empty = valid partition)"""
        probs = []
        gid = {}
        for gi, grp in enumerate(groups):
            key = node_tok[tmpl[grp[0]]]
            want = sorted(tok_atoms[key])
            got = sorted(tmpl[n] for n in grp)
            if got != want:
                probs.append(f"group {gi} ({cm.tok(key).text}) holds template atoms {got}, the token has {want}")
                return probs
            for n in grp:
                gid[n] = gi
        if len(gid) != G.number_of_nodes():
            return ["nodes left outside every residue"]
        inner = collections.defaultdict(dict)
        cross = []
        for u, v, d in G.edges(data=True):
            if gid[u] == gid[v]:
                inner[gid[u]][tuple(sorted((tmpl[u], tmpl[v])))] = int(d["bond_type"])
            else:
                cross.append((u, v, int(d["bond_type"])))
        for gi, grp in enumerate(groups):
            key = node_tok[tmpl[grp[0]]]
            want = {tuple(sorted(k)): bt for k, bt in static.items() if node_tok[k[0]] == key}
            if inner[gi] != want:
                probs.append(f"group {gi} ({cm.tok(key).text}) has internal bonds {sorted(inner[gi].items())}, the token has {sorted(want.items())}")
                return probs
        pairs = collections.Counter()
        for u, v, bt in cross:
            a, b = tmpl[u], tmpl[v]
            ok = False
            for x, y in ((a, b), (b, a)):
                if T.has_edge(x, y):
                    for k, ed in T.get_edge_data(x, y).items():
                        if ed.get("static_weight", 0) == 0 and int(ed["bond_type"]) == bt:
                            ok = True
            if not ok:
                probs.append(f"bond {u}-{v} (order {bt}) between residues has no non-static template edge {a}<->{b} of that order")
            pairs[tuple(sorted((gid[u], gid[v])))] += 1
        if any(c > 1 for c in pairs.values()):
            probs.append("two residues joined by more than one bond")
        if len(cross) != len(groups) - 1:
            probs.append(f"{len(cross)} inter-residue bonds for {len(groups)} residues (not a tree)")
        return probs

    # hint: creation order
    groups, cur, cur_key, seen = [], [], None, set()
    for n in sorted(G.nodes()):
        key = node_tok[tmpl[n]]
        if cur and (key != cur_key or tmpl[n] in seen):
            groups.append(cur)
            cur, seen = [], set()
        cur.append(n)
        seen.add(tmpl[n])
        cur_key = key
    if cur:
        groups.append(cur)
    probs = verify(groups)
    facts["residues"] = len(groups)
    facts["hint_ok"] = not probs
    if probs:
        alt = search_partition(G, tmpl, node_tok, tok_atoms, static, verify)
        if alt == "budget":
            facts["inconclusive"] = "partition search budget exceeded"
        elif alt is None:
            short = probs[0]
            cls = "c18.residue-incomplete" if "holds template atoms" in short else ("c18.residue-bonds-differ" if "internal bonds" in short else ("c18.bond-without-template-edge" if "no non-static" in short else "c18.not-a-tree-of-residues"))
            out.append({"cls": cls, "msg": "no partition into whole residues exists: " + short})
        else:
            facts["residues"] = len(alt)
            facts["partition_from_search"] = True
            groups = alt
    facts["multi_atom_end"] = any(node_tok[tmpl[g[0]]][1] == "end" and len(tok_atoms[node_tok[tmpl[g[0]]]]) > 1 for g in groups)
    return out, facts


def search_partition(G, tmpl, node_tok, tok_atoms, static, verify, budget=3000):
    """bounded backtracking over residue groups grown along static-mapped edges"""
    nodes = sorted(G.nodes())
    state = {"n": 0}

    def grow(assigned, groups):
        state["n"] += 1
        if state["n"] > budget:
            raise TimeoutError
        free = [n for n in nodes if n not in assigned]
        if not free:
            return groups if not verify(groups) else None
        start = free[0]
        key = node_tok[tmpl[start]]
        want = set(tok_atoms[key])

        def extend(grp, have):
            state["n"] += 1
            if state["n"] > budget:
                raise TimeoutError
            if have == want:
                yield list(grp)
                return
            # next template atom to place: one statically bonded to something already in the group
            for n in grp:
                for m in G.neighbors(n):
                    if m in assigned or m in grp:
                        continue
                    tm = tmpl[m]
                    if tm in have or tm not in want:
                        continue
                    if (tmpl[n], tm) in static:
                        yield from extend(grp + [m], have | {tm})
            return

        seen_sets = set()
        for grp in extend([start], {tmpl[start]}):
            fs = frozenset(grp)
            if fs in seen_sets:
                continue
            seen_sets.add(fs)
            res = grow(assigned | fs, groups + [grp])
            if res is not None:
                return res
        return None

    try:
        return grow(frozenset(), [])
    except (TimeoutError, RecursionError):
        return "budget"


def start_nodes(graph):
    """nodes of a directed (multi)graph from which every node can be reached along its edges (own breadth-first search)"""
    succ = {n: set() for n in graph.nodes()}
    for e in graph.edges():
        succ[e[0]].add(e[1])
    total = len(succ)
    out = []
    for n in succ:
        seen, todo = {n}, [n]
        while todo:
            for y in succ[todo.pop()]:
                if y not in seen:
                    seen.add(y)
                    todo.append(y)
        if len(seen) == total:
            out.append(n)
    return out


def generate(sag, rng, reuse=None):
    from gbigsmiles import AtomGraph

    ag = reuse if reuse is not None else AtomGraph(sag, rng=rng)
    with time_limit(40):
        with steps.line_budget(LINE_BUDGET):
            ag.generate()
    return ag


def run_case(case):
    import gbigsmiles

    rng = random.Random(case["seed"])
    cnt = collections.Counter()
    viol, nt = [], set()
    sample = None

    def one(sag, cm, ref, g, label, text, reuse=None, keep=None):
        trace.reset()
        try:
            ag = generate(sag, g, reuse)
            if keep is not None:
                keep.append(ag)
        except StepTimeout:
            if any(e["k"] == "draw_exc" and "StepTimeout" in e.get("exc", "") for e in trace.events):
                cnt["skipped_draw_runaway"] += 1  # the time was spent inside a Schulz-Zimm draw (C11's listed runaway search), not in atom-graph generation
            else:
                cnt["watchdog"] += 1
            return None
        except steps.StepBudgetExceeded:
            viol.append({"cls": "c18.does-not-terminate", "msg": f"generate() used more than {LINE_BUDGET} library lines", "text": text, "label": label})
            return None
        except Exception as exc:
            t = f"{type(exc).__name__}: {exc}"
            if "endless loop" in t or any(e["k"] == "draw_exc" for e in trace.events):
                cnt["skipped_draw_failed"] += 1
                return None
            if "does not contain a single source node" in t:
                # 'every graph that has a start node': whether the INPUT graph has one is decided here, by a plain search over its edges
                src = start_nodes(sag.graph)
                if src:
                    cnt["start_node_exists_but_refused"] += 1
                    viol.append({"cls": "c18.graph-with-start-node-refused", "msg": f"AtomGraph.generate raised {t[:120]!r} although every node of the stochastic atom graph can be reached from node {src[0]} (and {len(src) - 1} others)", "text": text, "label": label})
                else:
                    cnt["no_start_node"] += 1  # outside the quantifier
                return None
            cnt["generate_raised"] += 1
            cnt["generate_raised_" + type(exc).__name__] += 1
            viol.append({"cls": "c18.generate-raises." + type(exc).__name__, "msg": f"AtomGraph.generate raised {t}"[:300], "text": text, "label": label})
            return None
        vs, facts = audit(ag, sag, cm, ref)
        cnt["molecules_audited"] += 1
        cnt["residues_audited"] += facts.get("residues", 0)
        if facts.get("inconclusive"):
            cnt["partition_search_budget"] += 1
        if facts.get("isomorphism_undecided"):
            cnt["to_mol_isomorphism_undecided"] += 1
        if facts.get("partition_from_search"):
            cnt["partition_from_search"] += 1
        for v in vs:
            v["text"] = text
            v["label"] = label
            viol.append(v)
        if facts.get("residues", 0) >= 3 and facts.get("multi_atom_end"):
            nt.add(f"{text}#{label}")
        return facts

    if case["kind"] == "random":
        # a series of DIFFERENT molecules whose stochastic atom graphs have the same numbers of nodes and edges, each AtomGraph built from a
        # temporary StochasticAtomGraph (freed at once): nothing keyed by the address or the size of an earlier graph may leak into the next
        from ..ast import DistAst, MolAst, StochAst, Desc

        series = ["CC(C)O", "CCCO", "CC(C)N", "CCCS", "CC(O)C", "NCCC", "CC(=O)O"]
        rng.shuffle(series)
        for smi in series[:5] if case.get("arch") is None else []:
            try:
                u = gen.build_token(rng, smi, [Desc("<"), Desc(">")], "ends")
                ast_i = MolAst([StochAst(Desc(""), Desc(""), [u], [gen.single_atom_token("F", Desc("<")), gen.single_atom_token("Br", Desc(">"))], DistAst("schulz_zimm", (300.0, 200.0)))], arch="isomer-series")
                text_i = ast_i.to_text()
                M_i = gbigsmiles.Molecule(text_i)
                ag_tmp = gbigsmiles.AtomGraph(M_i.gen_stochastic_atom_graph(), rng=R.SpyRNG(case["seed"] + 3))  # the stochastic graph object is a temporary
                cm_i = model.compile_molecule(ast_i)
                sag_i = M_i.gen_stochastic_atom_graph()
                one(sag_i, cm_i, graphs.atom_graph(cm_i), None, "isomer-series-from-temporary-graph", text_i, reuse=ag_tmp)
                cnt["isomer_series_generations"] += 1
            except ValueError:
                continue
        for k in range(case["mols"]):
            try:
                if case.get("arch") == "initiator":
                    ast = gen.arch_initiator(gen.Ctx(rng, small=(k % 2 == 0)), ["schulz_zimm"], [2, 3, 5, 7][k % 4])
                    cnt["initiator_molecules"] += 1
                else:
                    ast = sz_molecule(rng, small=(k % 2 == 0), mean_units=[2, 3, 5, 7][k % 4])
            except ValueError:
                continue
            text = ast.to_text(True, rng.randrange(256))
            try:
                M = gbigsmiles.Molecule(text)
                sag = M.gen_stochastic_atom_graph()
            except Exception:
                cnt["setup_failed"] += 1
                continue
            cm = model.compile_molecule(ast)
            ref = graphs.atom_graph(cm)
            for gi in range(case["gens"]):
                s = case["seed"] * 7919 + k * 101 + gi
                f1 = one(sag, cm, ref, R.SpyRNG(s), f"seed{s}", text)
                if f1 is not None and gi == 0:
                    f2 = one(sag, cm, ref, R.SpyRNG(s), f"seed{s}-again", text)
                    if f2 is not None and "smiles" in f1 and "smiles" in f2:
                        cnt["equal_seed_pairs"] += 1
                        if f1["smiles"] != f2["smiles"]:
                            viol.append({"cls": "c18.equal-seeds-differ", "msg": f"seed {s} gave {f1['smiles']} and then {f2['smiles']}", "text": text})
                if gi == 2 and f1 is not None and "smiles" in f1:
                    # fault injection: a generation that breaks off mid-way (the sporadic failure of a Schulz-Zimm draw, injected at the k-th variate)
                    # must leave nothing behind -- the next generation with seed s gives what seed s gave before
                    for fail_at in (2, 3):
                        fr = R.FaultRNG(s + 17, fail_at)
                        try:
                            generate(sag, fr)
                        except BaseException:
                            pass
                        if fr.fired:
                            cnt["injected_faults"] += 1
                            f3 = one(sag, cm, ref, R.SpyRNG(s), f"seed{s}-after-injected-fault", text)
                            if f3 is not None and "smiles" in f3:
                                cnt["after_fault_pairs"] += 1
                                if f3["smiles"] != f1["smiles"]:
                                    viol.append({"cls": "c18.equal-seeds-differ.after-a-broken-off-generation", "msg": f"seed {s} gave {f1['smiles']}; after another generation broke off (injected draw failure at variate {fail_at}) the same seed gives {f3['smiles']}", "text": text})
                                    break
                if gi == 1 and f1 is not None:
                    # one AtomGraph object generating several times (to_mol() after each): every result is audited like a first one
                    kept = []
                    one(sag, cm, ref, R.SpyRNG(s + 1), f"seed{s + 1}-object-first-use", text, keep=kept)
                    for rep in range(2):
                        if kept:
                            one(sag, cm, ref, None, f"seed{s + 1}-object-reused-{rep + 1}", text, reuse=kept[0])
                            cnt["reused_object_generations"] += 1
                if sample is None and f1 and "smiles" in f1:
                    sample = {"input": text, "rng_seed": s, "smiles": f1["smiles"], "residues": f1["residues"]}
    else:
        for attempt in range(6):
            try:
                ast = sz_molecule(rng, small=True, mean_units=rng.choice([0.6, 1.2, 2]))
                text = ast.to_text()
                M = gbigsmiles.Molecule(text)
                sag = M.gen_stochastic_atom_graph()
                break
            except Exception:
                continue
        else:
            return {"viol": [], "cnt": {"enum_no_subject": 1}, "nt": []}
        cm = model.compile_molecule(ast)
        ref = graphs.atom_graph(cm)
        paths = 0
        for q in (0.3, 0.8):

            def run(rg):
                return one(sag, cm, ref, rg, "script" + ",".join(str(x) for x in rg.script), text)

            for rg, out in R.enumerate_paths(run, limit=case["limit"], default_q=q):
                paths += 1
                if cnt["watchdog"] >= 2 or len([v for v in viol if v["cls"] == "c18.does-not-terminate"]) >= 2:
                    break
            if R.enumerate_paths.last["complete"]:
                cnt["enum_complete"] += 1
            else:
                cnt["enum_truncated"] += 1
        cnt["enum_paths"] += paths
        sample = {"enumerated_input": text, "choice_sequences": paths}
    cnt.update(trace.take_counters())
    cnt["evaluations"] = cnt["molecules_audited"]
    seen = collections.Counter()
    out = []
    for v in viol:
        seen[v["cls"]] += 1
        if seen[v["cls"]] <= 5:
            out.append(v)
    res = {"viol": out, "nt": sorted(nt), "cnt": dict(cnt), "sample": sample}
    if cnt["watchdog"]:
        res["inconclusive"] = f"{cnt['watchdog']} generations hit the wall-clock watchdog before the logical line budget"
    return res
