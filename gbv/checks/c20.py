"""C20 -- force-field typing is total, element-consistent, numbering- and history-free."""
import collections
import copy
import os
import random
import shutil

from .. import env, gen
from .. import workloads as W
from ..monitors import trace
from ..util import StepTimeout, time_limit

ID = "C20"
LEVEL = "exploration"
CASE_TIMEOUT = 1500
RULE = (
    "fully generated molecules of all archetypes built from typable chemistry (alkyl, ether, ester, aromatic, ...) and from the whole fragment library: "
    "forcefield_types must either return exactly one parameter set per atom of the hydrogen-added molecule whose mass is the atom's element mass (0.05 u), "
    "or raise FfAssignmentError carrying the partial assignment and the molecule; a partial molecule must be refused; metamorphic relations: typing a "
    "randomly renumbered copy gives the same type for every heavy atom (mapped by the permutation) and the same multiset of hydrogen types per parent; "
    "a random history of typing calls with defaults and with explicit copies of the bundled files (made under .work/) never changes a result, and the copies "
    "give the same result as the defaults. A corpus of ~100 one-token small molecules and ions covering every element the bundled rule file names (metal ions, halides, S, P, Si, "
    "functional groups) goes through the same oracle. Non-trivial: >= 3 distinct types and an explicit-file call in the history; distinct by SMILES."
)
ASSUMPTIONS = ["renumbering is applied to the generated molecule's RDKit object inside a deep copy of the MolGen (harness side)"]
FLOORS = {"quick": {"corpus_molecules": 80, "molecules_typed": 150, "renumberings": 300, "explicit_file_calls": 100, "partial_probed": 100, "distinct_nontrivial": 40}, "thorough": {"molecules_typed": 2000}}


# small molecules and ions, one token each: every element the bundled rule file names (alkali / alkaline-earth / transition-metal ions, halides,
# S, P, Si) and the common functional groups -- the readers of the two parameter files are exercised far beyond polymer chemistry
CORPUS = [
    "C[Si](C)(C)O[Si](C)(C)O[Si](C)(C)C", "C[Se]C", "[Na+]", "[Li+]", "[K+]", "[Rb+]", "[Cs+]", "[Mg+2]", "[Ca+2]", "[Sr+2]", "[Ba+2]", "[Fe+2]", "[Cu+2]", "[Cl-]", "[Br-]", "[I-]", "[F-]", "[Zn+2]", "[Al+3]", "[He]", "[Ar]",
    "O", "N", "C", "CC", "CCO", "CO", "C=C", "C#C", "CC=O", "CC(C)=O", "CC(=O)O", "CC(=O)[O-]", "CC(=O)OC", "COC", "CN", "CNC", "CN(C)C", "C[NH3+]", "C[N+](C)(C)C", "CC(N)=O",
    "CC(=O)NC", "CC#N", "C[N+](=O)[O-]", "CS", "CSC", "CSSC", "CS(C)=O", "CS(C)(=O)=O", "COP(=O)(OC)OC", "CP(C)C", "C[Si](C)(C)C", "CF", "C(F)(F)F", "CCl", "C(Cl)(Cl)Cl", "CBr", "CI",
    "c1ccccc1", "Cc1ccccc1", "Oc1ccccc1", "Nc1ccccc1", "Fc1ccccc1", "Clc1ccccc1", "Brc1ccccc1", "c1ccncc1", "c1ccoc1", "c1ccsc1", "C1CCCCC1", "C1CCOC1", "C1CC1", "OCCO", "OCC(O)CO",
    "NCCN", "CC(C)(C)C", "CCCCCCCC", "C=CC=C", "CC(=O)Cl", "O=C=O", "CC(=O)OC(C)=O", "NC(N)=O", "CNC(=O)OC", "OO", "C1=CCCCC1", "[H][H]", "S", "P", "CC(=O)[O-].[Na+]", "[Cu+2].[O-]C(=O)C",
    "[Fe+2].[Cl-].[Cl-]", "C[S-]", "C[O-]", "c1ccccc1C(=O)O", "CC(C)Cc1ccccc1", "OCC(F)(F)F", "CCS(=O)(=O)O", "CSC(C)=O", "C[Si](C)(C)O[Si](C)(C)C",
]


def plan(tier, seed):
    n = 48 if tier == "quick" else 900
    cases = [{"seed": seed * 1001203 + i, "mols": 5, "renum": 3 if tier == "quick" else 12} for i in range(n)]
    chunk = 13
    first = []
    for i in range(0, len(CORPUS), chunk):
        first.append({"seed": seed * 1001209 + i, "corpus": [i, min(len(CORPUS), i + chunk)], "mols": 0, "renum": 2 if tier == "quick" else 8})
    # the corpus chunks come first: a worker types them before any call with the edited rule file has been made in its process
    return first + cases


def setup_worker():
    W.install()


def files_copy():
    from importlib.resources import files

    d = os.path.join(env.WORK, f"ff-{os.getpid()}")
    os.makedirs(d, exist_ok=True)
    a, b = os.path.join(d, "opls_copy.par"), os.path.join(d, "ffnonbonded_copy.itp")
    if not os.path.exists(a):
        shutil.copy(str(files("gbigsmiles").joinpath("data", "opls.par")), a)
        shutil.copy(str(files("gbigsmiles").joinpath("data", "ffnonbonded.itp")), b)
    return a, b


def files_edited():
    """a valid, user-EDITED rule file: the bundled rules plus two rules of its own (siloxane oxygen typed as ether oxygen, selenium typed as sulfur);
    what it assigns is the user's business -- but nothing of it may show in later calls that use the defaults or copies of the bundled files"""
    a, b = files_copy()
    e = os.path.join(os.path.dirname(a), "opls_edited.par")
    if not os.path.exists(e):
        txt = open(a).read()
        if not txt.endswith("\n"):
            txt += "\n"
        txt += "O   |  OS       |   opls_180   |  [$([OX2]([Si])[Si])]\n"
        txt += "S   |  S        |   opls_202   |  [$([Se])]\n"
        tmp = e + f".{os.getpid()}.tmp"
        open(tmp, "w").write(txt)
        os.replace(tmp, e)
    return e, b


def type_of(p):
    return (p.bond_type_name, round(p.mass, 4), round(p.charge, 4), round(p.sigma, 6), round(p.epsilon, 6))


def do_type(g, explicit):
    """-> ('ok', {atom: type}, mol) | ('ffa', exc) | ('exc', exc)"""
    from gbigsmiles.forcefield_helper import FfAssignmentError

    try:
        with time_limit(120):
            if explicit == "edited":
                a, b = files_edited()
                ff, mol = g.get_forcefield_types(smarts_filename=a, nb_filename=b)
            elif explicit:
                a, b = files_copy()
                ff, mol = g.get_forcefield_types(smarts_filename=a, nb_filename=b)
            else:
                ff, mol = g.forcefield_types
    except FfAssignmentError as exc:
        return ("ffa", exc, None)
    except StepTimeout:
        return ("watchdog", None, None)
    except Exception as exc:
        return ("exc", exc, None)
    return ("ok", {int(k): type_of(v) for k, v in ff.items()}, mol)


def judge(g, text, rng, case, cnt, viol, nt):
    """type one fully generated molecule under a random call history and random renumberings; -> sample dict or None"""
    from rdkit import Chem

    pt = Chem.GetPeriodicTable()
    smi = g.smiles
    # history: random sequence of default / explicit calls, all results must agree
    hist = [rng.random() < 0.4 for _ in range(rng.randint(2, 5))]
    if not any(hist):
        hist[rng.randrange(len(hist))] = True
    if any(x in text for x in ("[Si]", "[Se]")):
        hist = [False, "edited", False, True]  # the edited file has rules of its own for these elements: default / edited / default / copies
    elif rng.random() < 0.5:
        # a call with a user-edited rule file somewhere in the history (never last): its own result is not judged, later calls are
        hist.insert(rng.randrange(1, len(hist)), "edited")
    results = []
    for explicit in hist:
        r = do_type(g, explicit)
        cnt["typing_calls"] += 1
        if explicit == "edited":
            cnt["edited_file_calls"] += 1
            continue
        cnt["explicit_file_calls" if explicit else "default_calls"] += 1
        results.append((explicit, r))
    base = next((r for e, r in results if not e), results[0][1])
    for explicit, r in results:
        if r[0] == "exc":
            viol.append({"cls": "c20.typing-raises-other-error" + (".explicit-files" if explicit else ""), "msg": f"typing {smi} with {'explicit copies of the bundled files' if explicit else 'defaults'} raised {type(r[1]).__name__}: {r[1]}"[:300], "text": text, "history": hist})
            break
        if r[0] != base[0] or (r[0] == "ok" and r[1] != base[1]):
            viol.append({"cls": "c20.result-depends-on-history-or-files", "msg": f"typing {smi}: call with explicit={explicit} gave {r[0]} / differs from the first default result in history {hist}", "text": text})
            break
    if base[0] == "ffa":
        cnt["assignment_errors"] += 1
        exc = base[1]
        if not isinstance(getattr(exc, "incomplete_ff_dict", None), dict) or getattr(exc, "mol", None) is None:
            viol.append({"cls": "c20.assignment-error-without-payload", "msg": "FfAssignmentError lacks the partial assignment or the molecule", "text": text})
        return None
    if base[0] != "ok":
        return None
    cnt["molecules_typed"] += 1
    ff, mol = base[1], base[2]
    n = mol.GetNumAtoms()
    if sorted(ff) != list(range(n)):
        viol.append({"cls": "c20.not-total", "msg": f"{len(ff)} parameter sets for {n} atoms of {smi} and no FfAssignmentError", "text": text})
        return None
    for a in mol.GetAtoms():
        m = ff[a.GetIdx()][1]
        if abs(m - pt.GetAtomicWeight(a.GetAtomicNum())) > 0.05 and a.GetIsotope() == 0:
            viol.append({"cls": "c20.wrong-element-mass", "msg": f"atom {a.GetIdx()} ({a.GetSymbol()}) of {smi} got type {ff[a.GetIdx()][0]} with mass {m}", "text": text})
            break
    if len(set(v[0] for v in ff.values())) >= 3:
        nt.add(smi)
    # renumbering
    heavy = [a.GetIdx() for a in g.mol.GetAtoms()]
    for _ in range(case["renum"]):
        perm = list(range(len(heavy)))
        rng.shuffle(perm)  # new atom i is old atom perm[i]
        g2 = copy.deepcopy(g)
        g2._mol = Chem.RenumberAtoms(g._mol, perm)
        r2 = do_type(g2, False)
        cnt["renumberings"] += 1
        if r2[0] != "ok":
            viol.append({"cls": "c20.depends-on-numbering", "msg": f"{smi} is typable but a renumbered copy gave {r2[0]}: {r2[1]}"[:300], "text": text})
            break
        ff2, mol2 = r2[1], r2[2]
        nh = g.mol.GetNumAtoms()

        def htypes(mol_, ff_, idx):
            return sorted(ff_[nb.GetIdx()] for nb in mol_.GetAtomWithIdx(idx).GetNeighbors() if nb.GetAtomicNum() == 1 and nb.GetIdx() >= nh)

        bad = None
        for new_i, old_i in enumerate(perm):
            if ff2[new_i] != ff[old_i]:
                bad = f"heavy atom {old_i} has type {ff[old_i][0]}, after renumbering {ff2[new_i][0]}"
                break
            if htypes(mol2, ff2, new_i) != htypes(mol, ff, old_i):
                bad = f"hydrogens of atom {old_i} have types {htypes(mol, ff, old_i)}, after renumbering {htypes(mol2, ff2, new_i)}"
                break
        if bad:
            viol.append({"cls": "c20.depends-on-numbering", "msg": f"{smi}: {bad}", "text": text})
            break
    return {"input": text, "smiles": smi, "atoms_typed": n, "distinct_types": len(set(v[0] for v in ff.values())), "history_explicit_flags": hist, "types": sorted(set(v[0] for v in ff.values()))}


def run_case(case):
    import gbigsmiles
    from rdkit import Chem

    rng = random.Random(case["seed"])
    cnt = collections.Counter()
    viol, nt = [], set()
    sample = None
    pt = Chem.GetPeriodicTable()
    for k in range(case["mols"]):
        typable = rng.random() < 0.75
        try:
            subj = W.Subject(case["seed"] * 131 + k, small=rng.random() < 0.5, typable=typable, families=["gauss", "uniform", "poisson"], mean_units=rng.choice([1.5, 3, 5]))
            subj.parse()
        except Exception:
            cnt["subject_failed"] += 1
            continue
        obs = W.observe_generation(subj.lib, W.spy(case["seed"] + k), budget=subj.residue_budget())
        if obs["status"] != "ok":
            continue
        g = obs["mol"]
        text = subj.text
        if len(g.bond_descriptors) > 0:
            cnt["partial_probed"] += 1
            r = do_type(g, False)
            if r[0] in ("ok", "ffa"):
                viol.append({"cls": "c20.partial-molecule-typed", "msg": f"a molecule with {len(g.bond_descriptors)} open descriptors was typed instead of refused", "text": text})
            continue
        smp = judge(g, text, rng, case, cnt, viol, nt)
        if sample is None and smp:
            sample = smp
    if case.get("corpus"):
        lo, hi = case["corpus"]
        for smi0 in CORPUS[lo:hi]:
            try:
                g = gbigsmiles.Molecule(smi0).generate(rng=W.spy(1))
            except Exception:
                cnt["corpus_not_generated"] += 1
                continue
            cnt["corpus_molecules"] += 1
            smp = judge(g, smi0, rng, case, cnt, viol, nt)
            if smp:
                cnt["corpus_molecules_typed"] += 1
                if sample is None:
                    sample = smp
        cnt["evaluations"] = cnt["typing_calls"] + cnt["renumberings"]
        return {"viol": viol[:12], "nt": sorted(nt), "cnt": dict(cnt), "sample": sample}
    # deliberately partial molecules: a token / a prefix + object without its suffix, open descriptors with weight 0, 1, 2.5
    for w in ("|0|", "", "|2.5|", "|0.0|"):
        for txt, kind in ((f"CCO[>{w}]", "token"), (f"OC[<{w}]", "token"), (f"CC[>{w}]{{[>{w}] [<]CC[>{w}] [<{w}]}}|gauss(80,5)|", "molecule")):
            try:
                obj = gbigsmiles.SmilesToken(txt, 0, 0) if kind == "token" else gbigsmiles.Molecule(txt)
                g = obj.generate(rng=W.spy(3))
            except Exception:
                continue
            if g is None or len(g.bond_descriptors) == 0:
                continue
            cnt["partial_probed"] += 1
            r = do_type(g, False)
            if r[0] in ("ok", "ffa"):
                viol.append({"cls": "c20.partial-molecule-typed", "msg": f"{txt}: a molecule with {len(g.bond_descriptors)} open descriptors (weights {[b.weight for b in g.bond_descriptors]}) was typed instead of refused", "text": txt})
    cnt.update({k: v for k, v in trace.take_counters().items() if k.startswith("contract.attach")})
    cnt["evaluations"] = cnt["typing_calls"] + cnt["renumberings"]
    seen = collections.Counter()
    out = []
    for v in viol:
        seen[v["cls"]] += 1
        if seen[v["cls"]] <= 4:
            out.append(v)
    return {"viol": out, "nt": sorted(nt), "cnt": dict(cnt), "sample": sample}
