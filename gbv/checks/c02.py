"""C02 -- parsing recovers exactly the structure the notation denotes.

Oracle: the AST the string was printed from, and (independently of printer and library) RDKit's
reading of the same token text with every descriptor replaced by a labelled dummy atom."""
import itertools
import random

from .. import gen
from ..ast import Desc, DescRef, Node, StochAst, TokenAst, parse_fragment
from ..oracles import parse as op

ID = "C02"
LEVEL = "exploration"
RULE = (
    "strings printed from an AST by the independent printer: (a) complete enumeration of descriptor placements (site tuples x interleavings with the "
    "atom's branches x first-position x parenthesised-last) for 1-3 descriptors on a 14-fragment core; (b) random tokens over the whole fragment library "
    "with =,#,:,- prefixes, multi-digit ids, scalar/list weights in all float spellings, blanks, deep branches; (c) stochastic objects, molecules and systems "
    "of all archetypes in whitespace/number-format variants, parsed by the constructor of their level. Non-trivial: the token has a descriptor that is "
    "neither first nor last in its text, or a non-single order, or a list weight; distinct by printed text."
)
ASSUMPTIONS = [
    "ground truth = AST + RDKit dummy-atom reading; their disagreement is a harness bug (exit 2), never a violation",
    "stereo characters (/ \\ @) are outside the generator (the constructor rejects them)",
]
CORE = ["C", "CC", "CCC", "CC(C)C", "C(C)CC", "CC(C)(C)C", "C1CC1", "c1ccccc1", "CC(=O)OC", "CCl", "C[Si](C)C", "CC(C)(C(=O)OC)", "C1CCOC1", "CC=CC"]
# explicit hydrogen atoms written inside a multi-atom token (valid SMILES; a low-rate hostile input class)
EXPLICIT_H = ["C([H])C", "[H]C(C)C", "CC([H])([H])C", "C([H])([H])CO", "[H]N(C)C"]
DEEP = ["C(C(C(C(C)C)C)C)C", "CC(C(C)(C)C)C(C)C", "C(C)(C)C(C)(C)C", "C1CC(C(C)C)C1", "c1cc(C(C)C)ccc1C", "C(C(C(Cl)Br)O)N", "CC(CC(C)(C)C)(C)C"]
SLOTS = [("<", None), (">", None), ("$", 1)]
MAX_PER_CASE = 4000
CASE_TIMEOUT = 900
FLOORS = {"quick": {"tokens_parsed": 5000, "desc_compared": 10000, "distinct_nontrivial": 2000}, "thorough": {"tokens_parsed": 50000, "distinct_nontrivial": 20000}}


# ----------------------------------------------------------- complete placement enumeration --
def enum_placements(smi, k):
    """yield TokenAst for every placement of k descriptors (types SLOTS[:k]) on fragment smi"""
    n, caps, _ = gen.fragment_info(smi)
    sites = [i for i in range(n) if caps[i] > 0]
    for combo in itertools.product(sites, repeat=k):
        if any(combo.count(i) > caps[i] for i in set(combo)):
            continue
        per_atom = {}
        for slot, i in enumerate(combo):
            per_atom.setdefault(i, []).append(slot)
        atoms_sorted = sorted(per_atom)
        # options per atom: arrangement of its descriptors among its kids (+ optional 'first' for atom 0, + paren_last)
        opts = []
        base = parse_fragment(smi)
        for i in atoms_sorted:
            c = len(base.atoms[i].kids)
            slots = per_atom[i]
            o = []
            first_choices = [None] + (slots if i == 0 else [])
            for fc in first_choices:
                rest = [s for s in slots if s != fc]
                total = c + len(rest)
                for positions in itertools.permutations(range(total), len(rest)):
                    for pl in ((False, True) if total > 0 else (False,)):
                        o.append((fc, rest, positions, pl))
            opts.append(o)
        for choice in itertools.product(*opts):
            tok = parse_fragment(smi)
            atoms = tok.atoms
            for i, (fc, rest, positions, pl) in zip(atoms_sorted, choice):
                node = atoms[i]
                total = len(node.kids) + len(rest)
                newkids = [None] * total
                for s, p in zip(rest, positions):
                    newkids[p] = DescRef(Desc(SLOTS[s][0], SLOTS[s][1]))
                it = iter(node.kids)
                for q in range(total):
                    if newkids[q] is None:
                        newkids[q] = next(it)
                node.kids = newkids
                node.paren_last = pl
                if fc is not None:
                    tok.first = Desc(SLOTS[fc][0], SLOTS[fc][1])
            yield tok.reindex()


def count_placements(smi, k):
    return sum(1 for _ in enum_placements(smi, k))


def plan(tier, seed):
    cases = []
    for smi in CORE:
        n, caps, _ = gen.fragment_info(smi)
        for k in (1, 2, 3):
            if k == 3 and n > 4:
                continue
            cases.append({"kind": "enum", "frag": smi, "k": k, "seed": seed})
    nt = 64 if tier == "quick" else 400
    for i in range(nt):
        cases.append({"kind": "token", "seed": seed * 100003 + i, "n": 250})
    nm = 128 if tier == "quick" else 600
    for i in range(nm):
        cases.append({"kind": "mol", "seed": seed * 100019 + i, "n": 40})
    return cases


def rand_desc(rng, generable=False):
    d = Desc(rng.choice("$<>"))
    d.id = rng.choice([None, None, None, 0, 1, 2, 7, 12, 42, 105, 999])
    if not generable:
        d.bond = rng.choice(["", "", "", "", "-", "=", "#", ":"])
    w = rng.random()
    if w < 0.3:
        d.weight = rng.choice([2.0, 0.5, 3.0, 0.0, 1.0, 10.5, 1e-3, 250.0, 0.125])
    elif w < 0.45:
        d.weight = [float(rng.choice([0, 1, 2, 0.5, 3.25])) for _ in range(rng.randint(2, 7))]
    d.wfmt = rng.randrange(6)
    return d


def random_token(rng):
    pool = [s for s, _ in gen.FRAGMENTS] + DEEP + gen.SINGLE_ATOM_ENDS + (EXPLICIT_H if rng.random() < 0.03 else [])
    for _ in range(100):
        smi = rng.choice(pool)
        k = rng.randint(1, 4) if rng.random() < 0.9 else rng.randint(5, 8)
        descs = [rand_desc(rng) for _ in range(k)]
        try:
            if smi in gen.SINGLE_ATOM_ENDS:
                n, caps, _ = gen.fragment_info(smi) if not smi.startswith("[") else (1, (1,), 0)
                if smi.startswith("["):
                    d = descs[0]
                    d.bond = ""
                    return gen.single_atom_token(smi, d) if rng.random() < 0.5 else TokenAst(Node(atom=smi, kids=[DescRef(d)])).reindex()
            return gen.build_token(rng, smi, descs, rng.choice(["any", "any", "ends"]), spread=rng.random() < 0.7)
        except ValueError:
            continue
    raise RuntimeError("could not build a random token")


def check_token(tok, blanks, cnt, viol, nt, P="c02"):
    from gbigsmiles import SmilesToken

    text = tok.to_text(True, blanks)
    cnt["tokens_parsed"] += 1
    try:
        lt = SmilesToken(text, 0, 0)
    except Exception as exc:
        viol.append(op.V(f"{P}.rejects-valid-token", f"SmilesToken({text!r}) raised {type(exc).__name__}: {exc}", text=text))
        return text
    vs = op.compare_token(lt, tok, text, P=P)
    if "[H]" in text and len(tok.atoms) > 1:
        for v in vs:
            if v["cls"].endswith(("fragment-atoms", "fragment-bonds")):
                v["cls"] = f"{P}.explicit-hydrogen-in-multi-atom-token"
    cnt["desc_compared"] += len(tok.descriptors())
    for v in vs:
        v["text"] = text
    viol += vs[:3]
    if tok.nontrivial_placement():
        nt.add(text)
    return text


def run_case(case):
    import collections

    cnt = collections.Counter()
    viol, nt = [], set()
    sample = None
    rng = random.Random(case["seed"])
    if case["kind"] == "enum":
        total = 0
        for tok in enum_placements(case["frag"], case["k"]):
            total += 1
        cnt["enum_space"] += total
        stride = 1
        if total > MAX_PER_CASE:
            stride = -(-total // MAX_PER_CASE)
            cnt["enum_sampled_spaces"] += 1
        off = rng.randrange(stride)
        for idx, tok in enumerate(enum_placements(case["frag"], case["k"])):
            if idx % stride != off:
                continue
            text = check_token(tok, 0, cnt, viol, nt)
            cnt["enum_checked"] += 1
            if sample is None and idx > 3:
                sample = {"enumerated_token": text, "descriptor_atoms": [a for _, a in tok.descriptors()]}
        if stride == 1:
            cnt["enum_complete_spaces"] += 1
    elif case["kind"] == "token":
        for _ in range(case["n"]):
            tok = random_token(rng)
            text = check_token(tok, rng.randrange(4), cnt, viol, nt)
            cnt["random_tokens"] += 1
            if sample is None:
                sample = {"random_token": text, "descriptors": [(d.sym, d.id, d.bond, d.weight, a) for d, a in tok.descriptors()]}
    else:
        from gbigsmiles import Molecule, Stochastic, System

        for _ in range(case["n"]):
            sp = rng.randrange(256)
            level = rng.choice(["mol", "mol", "stoch", "sys"])
            if level == "sys":
                s = gen.make_system(rng)
                assign_mixtures(rng, s)
                text = s.to_text(True, sp)
                cnt["systems_parsed"] += 1
                try:
                    L = System(text)
                except Exception as exc:
                    viol.append(op.V("c02.rejects-valid-system", f"System({text!r}) raised {type(exc).__name__}: {exc}", text=text))
                    continue
                lm = op.molecules_of(L)
                if len(lm) != len(s.mols):
                    viol.append(op.V("c02.system-molecule-count", f"{len(lm)} molecules, written {len(s.mols)}", text=text))
                    continue
                vs = []
                for i, (a, b) in enumerate(zip(lm, s.mols)):
                    vs += op.compare_molecule(a, b, f"system molecule {i}", sp=sp)
            else:
                m = gen.make_molecule(rng)
                tdo = rng.random() < 0.06
                if rng.random() < 0.08:
                    perturb_uniform(rng, m)
                if rng.random() < 0.15:
                    # a transition list is data: whatever numbers are written are recovered as written, also entries that address a descriptor the
                    # owner could never bond to (such a molecule is not meant to be generated; parsing is what is checked here)
                    e0 = rng.choice([e for e in m.elements if isinstance(e, StochAst)])
                    dd = [d for d, kind, ti, a in e0.all_descs() if kind == "repeat"]
                    d0 = rng.choice(dd)
                    ndesc = len(e0.all_descs())
                    if ndesc >= 2:
                        d0.weight = [float(rng.choice([0, 0, 1, 2, 0.5, 3])) for _ in range(ndesc)]
                        if sum(d0.weight) == 0:
                            d0.weight[rng.randrange(ndesc)] = 1.0
                        cnt["arbitrary_transition_lists"] += 1
                if level == "stoch":
                    st = rng.choice([e for e in m.elements if isinstance(e, StochAst)])
                    text = st.to_text(True, sp, True)
                    cnt["stochastic_parsed"] += 1
                    try:
                        L = Stochastic(text, 0)
                    except Exception as exc:
                        viol.append(op.V("c02.rejects-valid-stochastic", f"Stochastic({text!r}) raised {type(exc).__name__}: {exc}", text=text))
                        continue
                    vs = op.compare_stoch(L, st, text, sp=sp, tdo=True)
                    m = None
                else:
                    if rng.random() < 0.3:
                        m.mixture = rng.choice([("abs", 5000.0), ("pct", 25.0), ("abs", 5e7), ("pct", 0.5), ("abs", 1234.5)])
                        m.mfmt = rng.randrange(6)
                    text = m.to_text(True, sp, tdo)
                    cnt["molecules_parsed"] += 1
                    try:
                        L = Molecule(text)
                    except Exception as exc:
                        cls = "c02.rejects-valid-molecule"
                        if has_trailing_dot_bar(text):
                            cls = "c02.number-with-trailing-dot-before-bar"
                        viol.append(op.V(cls, f"Molecule({text!r}) raised {type(exc).__name__}: {exc}", text=text))
                        continue
                    vs = op.compare_molecule(L, m, sp=sp, tdo=tdo)
                    if has_trailing_dot_bar(text):
                        for v in vs:
                            v["cls"] = "c02.number-with-trailing-dot-before-bar"
            for v in vs:
                v["text"] = text
            viol += vs[:3]
            nt.add(text)
            if sample is None:
                sample = {"level": level, "text": text}
    cnt["evaluations"] = cnt["tokens_parsed"] + cnt["molecules_parsed"] + cnt["stochastic_parsed"] + cnt["systems_parsed"]
    return {"viol": viol[:60], "nt": sorted(nt)[:100000], "cnt": dict(cnt), "sample": sample}


def has_trailing_dot_bar(text):
    import re

    # a number ending in '.' directly before '|' INSIDE a descriptor or distribution; a complete mixture specifier '.|1234.|' is not meant
    # (the library finds its leading '.|' first and reads it correctly)
    body = re.sub(r"\.\|\s*[0-9.eE+-]+\s*%?\s*\|", " ", text)
    return bool(re.search(r"\d\.\s*\|", body))


def perturb_uniform(rng, m):
    from ..ast import DistAst

    for e in m.elements:
        if isinstance(e, StochAst) and e.dist is not None:
            e.dist = DistAst("uniform", (12.7, 72.9), rng.randrange(6))


def assign_mixtures(rng, s):
    n = len(s.mols)
    kind = rng.choice(["abs", "pct", "mixed"])
    fine = rng.random() < 0.3  # values that use the whole mantissa: nothing may be rounded between parse and print
    if kind == "abs":
        for m in s.mols:
            m.mixture = ("abs", rng.uniform(0.5, 40.0) if fine else float(rng.choice([100, 250, 1000, 5000, 12345.5])))
    elif kind == "pct":
        rest = 100.0
        for i, m in enumerate(s.mols):
            if i == n - 1:
                m.mixture = ("abs", rng.uniform(1.0, 30.0) if fine else 2000.0)
            else:
                p = rest * rng.uniform(0.1, 0.6) if fine else round(rest * rng.uniform(0.1, 0.6), 1)
                rest -= p
                m.mixture = ("pct", p)
    else:
        for i, m in enumerate(s.mols):
            m.mixture = ("pct", round(90.0 / (n - 1), 3)) if i < n - 1 else ("abs", 700.0)
    for m in s.mols:
        m.mfmt = rng.randrange(6)
