"""Common workload of C04 / C05 / C06: random streams over every archetype, all choice sequences of
bounded instances, audited by the attach contract (online) and the quiescent-point audit (offline).
Each check reports the violation classes it owns; the others see the same executions."""
import collections

from .. import workloads as W
from ..monitors import rng as R
from ..monitors import trace
from ..oracles import genaudit
from ..util import StepTimeout, time_limit

ARCHS = ["homo", "endinit", "random", "block", "alternating", "stepgrowth", "star", "graft", "hyper", "lists", "comb", "sidecap", "stopper"]
CASE_TIMEOUT = 1500


def plan_common(tier, seed, n_random, n_enum, mols_per_case=6, gens_per_mol=4):
    cases = []
    for i in range(n_random):
        cases.append({"kind": "random", "seed": seed * 1000003 + i, "arch": ARCHS[i % len(ARCHS)], "mols": mols_per_case, "gens": gens_per_mol})
    for i in range(4 if tier == "quick" else 24):
        # hostile class (known finding): an explicit hydrogen written before a descriptor atom
        cases.append({"kind": "random", "seed": seed * 1000037 + i, "arch": "hostile_h", "mols": 4, "gens": 2})
    for i in range(n_enum):
        cases.append({"kind": "enum", "seed": seed * 1000033 + i, "arch": ARCHS[i % len(ARCHS)], "limit": 1200 if tier == "quick" else 6000})
    for i in range(4 if tier == "quick" else 40):
        # end groups of one object that are the same molecule in another atom order (appended last: the cases above keep their seeds)
        cases.append({"kind": "random", "seed": seed * 1000039 + i, "arch": "twinends", "mols": 5, "gens": 4})
    for i in range(6 if tier == "quick" else 40):
        # adjacent objects, the first growing through transition lists (appended last: the cases above keep their seeds)
        cases.append({"kind": "random", "seed": seed * 1000081 + i, "arch": "listblock", "mols": 5, "gens": 4})
    return cases


def nontrivial(owner, subj, facts, events):
    att = [e for e in events if e["k"] == "attach"]
    if owner == "c04":
        types = {e["d1"] for e in att} | {e["d2"] for e in att}
        return len(att) >= 3 and len(types) >= 2
    if owner == "c05":
        return facts.get("n_residues", 0) >= 3 and facts.get("n_tokens", 0) >= 2 and facts.get("multi_atom", False)
    if owner == "c06":
        ends = set()
        for e in subj.cm.elements:
            if hasattr(e, "ends"):
                ends |= {t.text for t in e.ends}
        return subj.closable and (len(subj.cm.elements) >= 2 or len(ends) >= 2)
    return False


def classify_exc(exc):
    t = f"{type(exc).__name__}: {exc}"
    if "endless loop" in t:
        return "draw-endless-loop"
    return type(exc).__name__


def handle_observation(owner, subj, obs, cnt, viol, nt, label):
    """judge one observed generation"""
    if getattr(subj, "hostile_h", False):
        mine = []
        _handle_observation(owner, subj, obs, cnt, mine, nt, label)
        cnt["hostile_h_generations"] += 1
        for v in mine:
            # mechanism: the written-order index of the descriptor's atom counts an explicit hydrogen that the fragment molecule does not contain
            v = dict(v, cls=f"{owner}.explicit-hydrogen-before-descriptor-atom", original_cls=v["cls"])
            viol.append(v)
        return None
    return _handle_observation(owner, subj, obs, cnt, viol, nt, label)


def _handle_observation(owner, subj, obs, cnt, viol, nt, label):
    own = lambda v: v["cls"].startswith(owner + ".") or v["cls"].startswith("native")
    for v in obs["violations"]:
        v = dict(v)
        v["text"] = subj.text
        v["label"] = label
        if own(v):
            viol.append(v)
        else:
            cnt["foreign_contract_violations_seen"] += 1
    ev = obs["events"]
    cnt["attach_events"] += sum(1 for e in ev if e["k"] == "attach")
    cnt["choice_events"] += sum(1 for e in ev if e["k"] == "choice")
    cnt["generations"] += 1
    if obs["status"] == "watchdog":
        cnt["watchdog"] += 1
        return None
    if obs["draw_failed"]:
        cnt["skipped_draw_failed"] += 1  # C09/C11's business
        return None
    if obs["status"] == "budget":
        if owner == "c06":
            viol.append({"cls": "c06.step-budget-exceeded", "msg": f"generation created more than {subj.residue_budget()} residues (logical step budget)", "text": subj.text, "label": label})
        return None
    if obs["status"] == "exc":
        cnt["generation_raised"] += 1
        cnt["generation_raised_" + classify_exc(obs["exc"])] += 1
        if owner == "c06" and subj.closable:
            viol.append({"cls": "c06.generation-raises." + classify_exc(obs["exc"]), "msg": f"well-posed molecule raised {type(obs['exc']).__name__}: {obs['exc']}"[:400], "text": subj.text, "label": label})
        return None
    g = obs["mol"]
    vs, facts = genaudit.audit(subj.lib, subj.cm, g, ev, closable=subj.closable, scope_first_may_be_end=True)
    cnt["molecules_audited"] += 1
    cnt["residues_audited"] += facts.get("n_residues", 0)
    if subj.closable:
        cnt["closable_audited"] += 1
    if facts.get("hist_missing"):
        cnt["hist_missing"] += 1
    for v in vs:
        v["text"] = subj.text
        v["label"] = label
        if own(v):
            viol.append(v)
        else:
            cnt["foreign_audit_violations_seen"] += 1
    if nontrivial(owner, subj, facts, ev):
        nt.add(subj.text if owner == "c06" else f"{subj.text}#{label}")
    return facts


def run_common(owner, case):
    W.install()
    cnt = collections.Counter()
    viol, nt = [], set()
    sample = None
    if case["kind"] == "random":
        for k in range(case["mols"]):
            try:
                # every third molecule gets forced extreme targets: negative, far below one unit, exactly a few units
                forced = [-2.5, 0.02, 1.0, 3.0] if k % 3 == 2 else None
                subj = W.Subject(case["seed"] * 131 + k, arch=case["arch"], small=(k % 3 == 0), families=["gauss", "uniform", "log_normal", "poisson", "gauss", "uniform", "schulz_zimm", "flory_schulz"], mean_units=[1.5, 3, 5, 8][k % 4], forced=forced)
                if forced:
                    cnt["subjects_extreme_targets"] += 1
            except ValueError:
                cnt["subject_build_failed"] += 1
                continue
            cnt["subjects"] += 1
            cnt["subjects_closable"] += int(subj.closable)
            cnt["arch_" + case["arch"]] += 1
            try:
                subj.parse()
            except (Exception, StepTimeout) as exc:
                cnt["parse_failed"] += 1
                if owner == "c06":
                    viol.append({"cls": "c06.valid-input-rejected", "msg": f"Molecule({subj.text!r}) raised {type(exc).__name__}: {exc}"[:300], "text": subj.text})
                continue
            if not subj.lib.generable:
                cnt["not_generable"] += 1
                continue
            for gi in range(case["gens"]):
                s = case["seed"] * 7919 + k * 101 + gi
                obs = W.observe_generation(subj.lib, W.spy(s), budget=subj.residue_budget())
                facts = handle_observation(owner, subj, obs, cnt, viol, nt, f"seed{s}")
                if sample is None and facts:
                    sample = {"input": subj.text, "rng_seed": s, "smiles": obs["mol"].smiles, "residues": facts["n_residues"], "attach_events": facts.get("attach_events"), "well_posed": subj.closable}
    else:
        for attempt in range(8):
            try:
                subj = W.Subject(case["seed"] * 17 + attempt, arch=case["arch"], small=True, forced=[0.4, 1.1, 1.6, 2.2] if case["arch"] not in ("star", "hyper", "graft", "comb", "sidecap") else [0.4, 0.9])
            except ValueError:
                continue
            if subj.closable:
                break
        else:
            return {"cnt": {"enum_no_subject": 1}, "viol": [], "nt": []}
        subj.parse()
        cnt["enum_instances"] += 1
        total_p = 0.0
        paths = 0

        def run(rg):
            return W.observe_generation(subj.lib, rg, budget=subj.residue_budget())

        for rg, out in R.enumerate_paths(run, limit=case["limit"]):
            paths += 1
            obs = out[1]
            if out[0] != "ok":
                raise obs
            total_p += rg.prob
            handle_observation(owner, subj, obs, cnt, viol, nt, "script" + ",".join(str(t[0]) for t in rg.trace_ranks))
        complete = R.enumerate_paths.last["complete"]
        cnt["enum_paths"] += paths
        if complete:
            cnt["enum_complete_instances"] += 1
            if abs(total_p - 1.0) > 1e-9:
                return {"harness_error": f"path probabilities sum to {total_p} on {subj.text}"}
        else:
            cnt["enum_truncated_instances"] += 1
        sample = {"enumerated_input": subj.text, "paths": paths, "complete": complete}
    cnt["evaluations"] = cnt["generations"]
    return {"viol": dedupe(viol), "nt": sorted(nt), "cnt": dict(cnt), "sample": sample}


def dedupe(viol, per_class=6):
    seen = collections.Counter()
    out = []
    for v in viol:
        seen[v["cls"]] += 1
        if seen[v["cls"]] <= per_class:
            out.append(v)
    return out
