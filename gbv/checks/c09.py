"""C09 -- block sizes in an ensemble follow the declared molecular-weight distribution."""
import collections
import math
import random

from .. import gen
from .. import workloads as W
from ..ast import Desc, DistAst, MolAst, StochAst
from ..monitors import trace
from ..monitors.rng import ScriptedRNG, SpyRNG
from ..ref import dist as rd

ID = "C09"
LEVEL = "exploration"
CASE_TIMEOUT = 2400
RULE = (
    "one case = (family, parameters, unit fragment, 1-3 blocks): linear chains prefix{unit}...suffix so that a block's size is the number of instances of its "
    "unit in the returned molecule. (1) exact per-quantile oracle for the families whose draw consumes one uniform/standard normal (gauss, uniform, "
    "schulz_zimm, flory_schulz, log_normal): under a scripted quantile q the block size must equal min{n : c_n > T} for T = reference quantile (interval "
    "[T-,T+]; quantiles where the ends disagree are knife-edges, skipped and counted); (2) goodness of fit on random streams for all six: sizes vs "
    "pi_n = P(T<c_n) - P(T<c_(n-1)) from the closed-form laws, chi-square rejected at 1e-5 and re-confirmed on a fresh seed with twice the sample; "
    "(3) two blocks with the same law must not share one draw. Non-trivial: expected size distribution has >= 4 sizes with mass >= 2%; distinct by case."
)
ASSUMPTIONS = ["generations whose draw raises (C11 known finding) are skipped; a GOF case with draw failures is not decided statistically", "statistical false-alarm bound < 1e-9 per case"]
FLOORS = {"quick": {"large_mass_generations": 8, "quantile_decided": 700, "gof_cases_decided": 4, "molecules": 3000, "distinct_nontrivial": 10}, "thorough": {"quantile_decided": 20000, "gof_cases_decided": 25}}

UNITS = ["CC", "CCO", "CC(C)C(=O)OC", "Cc1ccccc1", "C(F)F", "CS", "CC(C)(C)C", "C1CCCCC1"]
# parameters in multiples of the unit mass m (so that blocks have a handful of units whatever the fragment)
CASES = [
    ("gauss", lambda m: (round(6 * m, 1), round(1.5 * m, 1))), ("gauss", lambda m: (round(10 * m, 1), round(m, 1))), ("gauss", lambda m: (round(2 * m, 1), round(1.2 * m, 1))),
    ("uniform", lambda m: (int(2 * m), int(9 * m))), ("uniform", lambda m: (int(0.5 * m), int(3 * m))),
    ("log_normal", lambda m: (round(6 * m, 1), 1.3)), ("log_normal", lambda m: (round(5 * m, 1), 1.05)),
    ("poisson", lambda m: (round(6 * m),)), ("poisson", lambda m: (round(2.5 * m),)),
    ("flory_schulz", lambda m: (round(1 / (3 * m), 5),)), ("flory_schulz", lambda m: (round(1 / (1.5 * m), 5),)),
    ("schulz_zimm", lambda m: (round(9 * m), round(6 * m))), ("schulz_zimm", lambda m: (round(9.6 * m), round(8 * m))), ("schulz_zimm", lambda m: (round(6.4 * m), round(6 * m))),
]


HEAVY_UNIT = "C(I)(I)C(I)(I)C(I)(I)C(I)(I)C(I)(I)C(I)(I)C(I)(I)C(I)(I)"  # 2126.6 u
LARGE = [("schulz_zimm", (75000, 50000)), ("gauss", (80000, 8000)), ("log_normal", (60000, 1.3)), ("uniform", (50000, 120000)), ("schulz_zimm", (150000, 100000))]


def plan(tier, seed):
    cases = []
    rng = random.Random(seed * 31 + 5)
    reps = 1 if tier == "quick" else 5
    for r in range(reps):
        for i, (fam, pf) in enumerate(CASES):
            unit = UNITS[(i + r + seed) % len(UNITS)] if fam != "poisson" else ["C", "CC"][(i + r) % 2]
            p = pf(gen.fragment_info(unit)[2])
            cases.append({"kind": "quantile", "family": fam, "params": list(p), "unit": unit, "nq": 80 if tier == "quick" else 600, "seed": seed * 100 + r, "blocks": 1 + (i + r) % 2})
            cases.append({"kind": "gof", "family": fam, "params": list(p), "unit": unit, "n": 250 if tier == "quick" else 3000, "seed": seed * 100 + r, "blocks": 1 + (i + r) % (2 if tier == "quick" else 3)})
    for r in range(reps):
        for i, (fam, pf) in enumerate(CASES):
            if fam == "poisson":
                continue
            ua, ub = UNITS[(i + r) % len(UNITS)], UNITS[(i + r + 3) % len(UNITS)]
            m = 0.5 * (gen.fragment_info(ua)[2] + gen.fragment_info(ub)[2])
            cases.append({"kind": "copolymer", "family": fam, "params": list(pf(m)), "unit": ua, "unit2": ub, "nq": 50 if tier == "quick" else 400, "seed": seed * 100 + r, "blocks": 1})
    # realistic masses (tens of kg/mol) on a heavy unit: sampling tables / caches sized for the documentation's small examples show up here
    large = LARGE if tier == "thorough" else [LARGE[seed % len(LARGE)]]
    for fam, p in large:
        cases.insert(0, {"kind": "quantile", "family": fam, "params": list(p), "unit": HEAVY_UNIT, "nq": 16 if tier == "quick" else 80, "seed": seed * 100 + 77, "blocks": 1, "large": True})
    return [c for c in cases if not (c["kind"] == "quantile" and c["family"] == "poisson")]


def setup_worker():
    W.install()


def chain(fam, params, unit_smi, blocks, rng):
    """prefix {unit} [{unit2}] suffix, directed, deterministic growth"""
    els = [gen.plain_token("BrC")]
    units = []
    m0 = gen.fragment_info(unit_smi)[2]
    pool = [unit_smi] + sorted((u for u in UNITS if u != unit_smi), key=lambda u: abs(math.log(gen.fragment_info(u)[2] / m0)))
    for b in range(blocks):
        smi = pool[b % len(pool)]
        u = gen.build_token(rng, smi, [Desc("<"), Desc(">")], "ends")
        units.append(u)
        els.append(StochAst(Desc(">"), Desc("<"), [u], [], DistAst(fam, tuple(params), rng.randrange(6), True)))
    els.append(gen.plain_token("CCl"))
    return MolAst(els), units


def block_sizes(g, lib, units):
    """instances of each block's unit token in the returned molecule, from the residue numbers on the atoms; cross-checked against the
    molecule itself (atom count and heavy-atom mass must be prefix + sum(n_b x unit_b) + suffix computed from the WRITTEN fragments)"""
    mol = g.mol
    per = collections.Counter(a.GetPDBResidueInfo().GetResidueNumber() for a in mol.GetAtoms())
    sizes = []
    k = 0
    for e in lib.elements:
        if type(e).__name__ == "Stochastic":
            tok = e.repeat_tokens[0]
            n_atoms = len(tok.atoms)
            sizes.append(per.get(tok.res_id, 0) // n_atoms)
            k += 1
    want_atoms = gen.fragment_info("BrC")[0] + gen.fragment_info("CCl")[0] + sum(n * gen.fragment_info(u.name)[0] for n, u in zip(sizes, units))
    want_mass = gen.fragment_info("BrC")[2] + gen.fragment_info("CCl")[2] + sum(n * gen.fragment_info(u.name)[2] for n, u in zip(sizes, units))
    if mol.GetNumAtoms() != want_atoms or abs(g.weight - want_mass) > 1e-6 * want_mass:
        raise SizesDisagree(f"residue labels give block sizes {sizes}, i.e. {want_atoms} atoms / {want_mass:.3f} u, the molecule has {mol.GetNumAtoms()} atoms / {g.weight:.3f} u")
    return sizes


class SizesDisagree(Exception):
    pass


def expected_size(T, m, nmax=100000):
    """min{n >= 1 : n*m > T} with the cumulative mass summed as floats"""
    acc, n = 0.0, 0
    while True:
        n += 1
        acc += m
        if acc > T:
            return n
        if n > nmax:
            return None


def chi2_sf(x, k):
    from scipy import special

    return float(special.gammaincc(k / 2.0, x / 2.0))


def run_case(case):
    import gbigsmiles

    fam, params = case["family"], tuple(case["params"])
    rng = random.Random(case["seed"] * 1009 + len(case["unit"]))
    if case["kind"] == "copolymer":
        return run_copolymer(case, rng)
    ast, units = chain(fam, params, case["unit"], case["blocks"], rng)
    text = ast.to_text()
    from gbigsmiles.distribution import get_distribution

    for dt in rd.decoy_texts(fam, params):  # other families with coinciding numbers are parsed first (shared state)
        try:
            get_distribution(dt)
        except Exception:
            pass
    lib = gbigsmiles.Molecule(text)
    ref = rd.make(fam, params)
    masses = [gen.fragment_info(u.name)[2] for u in units]
    cnt = collections.Counter()
    viol, nt = [], []
    label = f"{fam}{params} unit {case['unit']} x{case['blocks']}"

    def pi_table(m):
        out, prev, n = {}, 0.0, 0
        while True:
            n += 1
            c = n * m
            p = ref.p_less(c)
            if p - prev > 0:
                out[n] = p - prev
            prev = p
            if p > 1 - 1e-12 or n > 20000:
                break
        return out

    if case["kind"] == "quantile":
        tol_abs = 2.0 + 1.0 / max(ref.var() ** 0.5, 1e-9) if fam == "schulz_zimm" else 0.0
        for i in range(case["nq"]):
            q = (i + rng.random()) / case["nq"]
            q = min(max(q, 1e-6), 1 - 1e-4)
            obs = W.observe_generation(lib, ScriptedRNG(default_q=q), budget=20000, limit_s=60)
            cnt["molecules"] += 1
            if obs["status"] != "ok":
                cnt["generation_" + obs["status"]] += 1
                continue
            if case.get("large"):
                cnt["large_mass_generations"] += 1
            try:
                sizes = block_sizes(obs["mol"], lib, units)
            except SizesDisagree as exc:
                viol.append({"cls": "c09.block-sizes-not-readable-from-molecule", "msg": f"{label}: {exc}", "text": text})
                continue
            draws = [e["value"] for e in obs["events"] if e["k"] == "draw"]
            Tref = ref.ppf(q)
            if ref.discrete and fam == "flory_schulz":
                T_lo = T_hi = Tref
                # knife edge: the cumulative function is within 1e-9 of q at the neighbouring integer
                if abs(ref.cdf(Tref) - q) < 1e-9 or abs(ref.cdf(Tref - 1) - q) < 1e-9:
                    cnt["quantile_knife_edge"] += 1
                    continue
            elif fam == "schulz_zimm":
                T_lo, T_hi = Tref - tol_abs, Tref + tol_abs
            else:
                T_lo, T_hi = Tref - 1e-6 * abs(Tref) - 1e-9, Tref + 1e-6 * abs(Tref) + 1e-9
            for b, (n, m) in enumerate(zip(sizes, masses)):
                lo, hi = expected_size(T_lo, m), expected_size(T_hi, m)
                if lo != hi:
                    cnt["quantile_knife_edge"] += 1
                    continue
                cnt["quantile_decided"] += 1
                if n != lo:
                    viol.append({"cls": "c09.quantile.block-size-differs", "msg": f"{label}: under quantile {q!r} block {b} has {n} units of mass {m:.3f}; the declared law's quantile T = {Tref!r} gives {lo} (the library drew {draws})", "text": text, "q": q})
        if cnt["quantile_decided"] >= (10 if case.get("large") else 50):
            nt.append("quantile:" + label)
    else:

        def sample(n, seed0):
            sizes_all, failed = [], 0
            for i in range(n):
                obs = W.observe_generation(lib, SpyRNG(seed0 + i), budget=20000, limit_s=60)
                cnt["molecules"] += 1
                if obs["status"] != "ok":
                    failed += 1
                    continue
                draws = [e["value"] for e in obs["events"] if e["k"] == "draw"]
                if len(draws) != len(units):
                    viol.append({"cls": "c09.draw-count", "msg": f"{label}: {len(draws)} draws for {len(units)} blocks", "text": text})
                try:
                    sizes_all.append(block_sizes(obs["mol"], lib, units))
                except SizesDisagree as exc:
                    viol.append({"cls": "c09.block-sizes-not-readable-from-molecule", "msg": f"{label}: {exc}", "text": text})
                    failed += 1
            return sizes_all, failed

        def reject(sizes_all):
            rej = []
            for b, m in enumerate(masses):
                pi = pi_table(m)
                obs_c = collections.Counter(s[b] for s in sizes_all)
                n = len(sizes_all)
                # pool bins with expectation < 8
                keys = sorted(pi)
                bins, cur_p, cur_keys = [], 0.0, []
                for k in keys:
                    cur_p += pi[k]
                    cur_keys.append(k)
                    if cur_p * n >= 8:
                        bins.append((cur_keys, cur_p))
                        cur_p, cur_keys = 0.0, []
                if cur_keys:
                    if bins:
                        bins[-1] = (bins[-1][0] + cur_keys, bins[-1][1] + cur_p)
                    else:
                        bins.append((cur_keys, cur_p))
                covered = set(k for ks, _ in bins for k in ks)
                outside = sum(c for k, c in obs_c.items() if k not in covered)
                tot_p = sum(p for _, p in bins)
                if len(bins) < 2:
                    if outside > 0.02 * n + 5:
                        rej.append(f"block {b}: {outside} of {n} sizes outside the expected support {sorted(covered)[:5]}..")
                    continue
                chi = sum((sum(obs_c.get(k, 0) for k in ks) - n * p) ** 2 / (n * p) for ks, p in bins)
                chi += (outside - n * max(1 - tot_p, 0)) ** 2 / max(n * max(1 - tot_p, 1e-9), 1.0) if outside else 0.0
                if chi2_sf(chi, len(bins) - 1) < 1e-5:
                    top = sorted(obs_c.items())[:6]
                    rej.append(f"block {b} (unit mass {m:.2f}): chi-square {chi:.1f} on {len(bins)} bins; observed sizes {top}.. expected shares {[(k, round(pi[k], 3)) for k in keys[:6]]}..")
            if len(masses) >= 2 and masses[0] == masses[1]:
                pass
            return rej

        sizes_all, failed = sample(case["n"], case["seed"] * 100000 + 17)
        pi0 = pi_table(masses[0])
        if sum(1 for p in pi0.values() if p >= 0.02) >= 4:
            nt.append("gof:" + label)
        if failed:
            cnt["gof_skipped_draw_failures"] += 1
            cnt["gof_failed_generations"] += failed
        elif len(sizes_all) >= 100:
            rej = reject(sizes_all)
            cnt["gof_cases_decided"] += 1
            if rej:
                sizes2, failed2 = sample(2 * case["n"], case["seed"] * 100000 + 900017)
                cnt["gof_reconfirmations"] += 1
                rej2 = reject(sizes2) if not failed2 else []
                if rej2:
                    viol.append({"cls": "c09.gof.block-sizes-differ-from-declared-law", "msg": f"{label}: " + "; ".join(rej2), "text": text})
            # independence of the blocks' draws
            if len(units) >= 2:
                same = sum(1 for s in sizes_all if s[0] * masses[0] // 1 == s[1] * masses[1] // 1)
                draws_equal = 0
        # (3) one draw per block, not shared
        if len(units) >= 2 and fam not in ("poisson",):
            obs = W.observe_generation(lib, SpyRNG(case["seed"] + 5), budget=20000, limit_s=60)
            if obs["status"] == "ok":
                draws = [e["value"] for e in obs["events"] if e["k"] == "draw"]
                rands = [e["value"] for e in obs["events"] if e["k"] == "rand"]
                cnt["shared_draw_checks"] += 1
                if len(draws) >= 2 and len(set(draws)) == 1 and len(set(map(str, rands))) > 1 and fam in ("gauss", "uniform", "log_normal"):
                    viol.append({"cls": "c09.draw-shared-between-blocks", "msg": f"{label}: the blocks received identical targets {draws} although the generator delivered different variates", "text": text})
    cnt.update(trace.take_counters())
    cnt["evaluations"] = cnt["molecules"]
    return {"viol": viol[:20], "nt": nt, "cnt": dict(cnt), "sample": {"case": label, "input": text, "kind": case["kind"]}}


def run_copolymer(case, rng):
    """one block of two units of different mass: under a scripted quantile the block must stop after the first unit
    whose cumulative mass (of the units actually drawn, in creation order) exceeds the reference quantile"""
    import gbigsmiles

    fam, params = case["family"], tuple(case["params"])
    ua = gen.build_token(rng, case["unit"], [Desc("<", None, 2.0), Desc(">")], "ends")
    ub = gen.build_token(rng, case["unit2"], [Desc("<"), Desc(">")], "ends")
    ast = MolAst([gen.plain_token("BrC"), StochAst(Desc(">"), Desc("<"), [ua, ub], [], DistAst(fam, params, rng.randrange(6), True)), gen.plain_token("CCl")])
    text = ast.to_text()
    lib = gbigsmiles.Molecule(text)
    ref = rd.make(fam, params)
    label = f"copolymer {fam}{params} units {case['unit']} + {case['unit2']}"
    st = lib.elements[1]
    toks = {t.res_id: (len(t.atoms), gen.fragment_info(n)[2]) for t, n in zip(st.repeat_tokens, (case["unit"], case["unit2"]))}
    cnt = collections.Counter()
    viol = []
    tol_abs = 2.0 + 1.0 / max(ref.var() ** 0.5, 1e-9) if fam == "schulz_zimm" else 0.0
    for i in range(case["nq"]):
        q = min(max((i + rng.random()) / case["nq"], 1e-6), 1 - 1e-4)
        g = ScriptedRNG(script=[rng.randrange(64) for _ in range(400)], default_q=q, wrap=True)
        obs = W.observe_generation(lib, g, budget=20000, limit_s=60)
        cnt["molecules"] += 1
        if obs["status"] != "ok":
            cnt["generation_" + obs["status"]] += 1
            continue
        mol = obs["mol"].mol
        seq, k, n_at = [], 0, mol.GetNumAtoms()
        while k < n_at:
            rid = mol.GetAtomWithIdx(k).GetPDBResidueInfo().GetResidueNumber()
            if rid in toks:
                seq.append(toks[rid][1])
                k += toks[rid][0]
            else:
                k += 1
        Tref = ref.ppf(q)
        if fam == "flory_schulz" and (abs(ref.cdf(Tref) - q) < 1e-9 or abs(ref.cdf(Tref - 1) - q) < 1e-9):
            cnt["quantile_knife_edge"] += 1
            continue
        lo_hi = []
        for T in ((Tref - tol_abs, Tref + tol_abs) if fam == "schulz_zimm" else (Tref - 1e-6 * abs(Tref) - 1e-9, Tref + 1e-6 * abs(Tref) + 1e-9)):
            acc, want = 0.0, None
            for kk, m in enumerate(seq, 1):
                acc += m
                if acc > T:
                    want = kk
                    break
            lo_hi.append(want)
        if lo_hi[0] != lo_hi[1]:
            cnt["quantile_knife_edge"] += 1
            continue
        cnt["quantile_decided"] += 1
        cnt["copolymer_decided"] += 1
        if lo_hi[0] != len(seq):
            viol.append({"cls": "c09.quantile.copolymer-block-size-differs", "msg": f"{label}: under quantile {q!r} the block has {len(seq)} units with masses {[round(x, 1) for x in seq[:8]]}..; the declared law's quantile T = {Tref!r} is first exceeded after unit {lo_hi[0]}", "text": text, "q": q})
    cnt.update(trace.take_counters())
    cnt["evaluations"] = cnt["molecules"]
    nt = ["copolymer:" + label] if cnt["copolymer_decided"] >= 30 and len(set(round(x) for x in toks.values() for x in [x[1]])) == 2 else []
    return {"viol": viol[:20], "nt": nt, "cnt": dict(cnt), "sample": {"case": label, "input": text, "kind": "copolymer"}}
