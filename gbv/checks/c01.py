"""C01 -- canonical notation round-trips: fixed point, same object, extensions erasable."""
import collections
import json
import os
import random
import re

from .. import env, gen
from ..ast import StochAst
from ..oracles import parse as op
from . import c02
from ..util import StepTimeout, time_limit

ID = "C01"
LEVEL = "exploration"
RULE = (
    "every accepted string s (archetype strings in whitespace/number variants at molecule, stochastic-object and system level; random tokens and bond "
    "descriptors; the 173 documented strings of README/SI/play.py/tests tried on all five constructors; and second-generation inputs = the library's own "
    "printed forms) is parsed, printed (c), re-parsed: c must be accepted, print to itself, and the two parsed objects must agree field by field "
    "(elements, tokens, descriptors, weights, distributions, mixture masses, generability); seeded generation of both objects is compared on a sample; "
    "generate_string(False) must equal c with every |...| segment erased, and for single molecules the erased string must re-parse to the same tokens and "
    "descriptors. Non-trivial: the string has a stochastic object or descriptor and its canonical form differs from the text or contains an inserted "
    "descriptor; distinct by (level, text)."
)
ASSUMPTIONS = ["strings the parser rejects are outside the quantifier (counted as rejected)", "generation equality is sampled (about 10% of generable molecules), with targets of a few units"]
CASE_TIMEOUT = 900
FLOORS = {"quick": {"roundtrips": 3000, "generation_pairs": 100, "distinct_nontrivial": 1500}, "thorough": {"roundtrips": 40000, "generation_pairs": 1000}}
ERASE = re.compile(r"\|[^|]*\|")


def ctors():
    import gbigsmiles

    return {
        "bond": lambda t: gbigsmiles.BondDescriptor(t, 0, "", 0),
        "token": lambda t: gbigsmiles.SmilesToken(t, 0, 0),
        "stochastic": lambda t: gbigsmiles.Stochastic(t, 0),
        "molecule": lambda t: gbigsmiles.Molecule(t),
        "system": lambda t: gbigsmiles.System(t),
    }


def plan(tier, seed):
    cases = []
    corpus = json.load(open(os.path.join(env.VERIF, "corpus.json")))
    for i in range(0, len(corpus), 12):
        cases.append({"kind": "corpus", "lo": i, "hi": min(len(corpus), i + 12), "seed": seed})
    n = 128 if tier == "quick" else 700
    for i in range(n):
        cases.append({"kind": "arch", "seed": seed * 100043 + i, "n": 30})
    n = 32 if tier == "quick" else 120
    for i in range(n):
        cases.append({"kind": "token", "seed": seed * 100057 + i, "n": 200})
    return cases


def classify_exc(level, text, exc, stage):
    msg = f"{type(exc).__name__}: {exc}"
    return msg


def roundtrip(level, text, cnt, viol, nt, rng, do_generate=False, depth=0):
    """The whole of C01 for one (level, string)."""
    C = ctors()
    import signal

    cnt["strings_tried"] += 1
    try:
        with time_limit(30):
            o = C[level](text)
    except StepTimeout:
        cnt["parse_watchdog"] += 1  # termination is C15's business; here the case is undecided
        return None
    except Exception:
        cnt["rejected_inputs"] += 1
        return None
    cnt["roundtrips"] += 1
    cnt[f"roundtrips_{level}"] += 1

    def bad(cls, msg):
        if op_has_trailing_dot(text):
            cls = "c01.number-with-trailing-dot-before-bar"
        viol.append(op.V(cls, msg, level=level, text=text))

    try:
        c = str(o)
    except Exception as exc:
        bad("c01.print-raises", f"str({level}({text!r})) raised {type(exc).__name__}: {exc}")
        return None
    try:
        with time_limit(30):
            o2 = C[level](c)
    except StepTimeout:
        cnt["parse_watchdog"] += 1
        return c
    except Exception as exc:
        cls = "c01.canonical-rejected"
        if level in ("molecule", "system") and re.search(r"\.$", ERASE.sub("", text).strip()) is None and isinstance(exc, IndexError):
            cls += ".indexerror"
        bad(cls, f"canonical form {c!r} of {level}({text!r}) is rejected: {type(exc).__name__}: {exc}")
        return c
    c2 = str(o2)
    if c2 != c:
        bad("c01.not-a-fixed-point", f"{level}: {text!r} prints {c!r}, which prints {c2!r}")
    try:
        d = op.fp_diff(op.fp_any(o), op.fp_any(o2))
    except op.HarnessBug:
        raise
    if d:
        bad("c01.reparse-differs", f"{level}({text!r}) and its canonical form {c!r} denote different objects: {d}")
    # erasure identity
    try:
        plain = o.generate_string(False)
    except Exception as exc:
        bad("c01.print-noext-raises", f"generate_string(False) of {level}({text!r}) raised {type(exc).__name__}: {exc}")
        plain = None
    if plain is not None:
        erased = ERASE.sub("", c)
        if "|" in plain:
            bad("c01.noext-contains-bar", f"{level}({text!r}).generate_string(False) = {plain!r} contains '|'")
        elif plain != erased:
            bad("c01.noext-differs-from-erased", f"{level}({text!r}): generate_string(False) = {plain!r}, canonical with |..| erased = {erased!r}")
        cnt["erasure_checked"] += 1
        if level == "molecule":
            mix = o.mixture is not None
            try:
                o3 = C["molecule"](plain)
            except Exception as exc:
                bad("c01.noext-rejected" + (".mixture-dot" if mix else ""), f"extension-free form {plain!r} of Molecule({text!r}) is rejected: {type(exc).__name__}: {exc}")
                o3 = None
            if o3 is not None:
                d3 = op.fp_diff(op.fp_mol(o, weights=False), op.fp_mol(o3, weights=False))
                if d3:
                    bad("c01.noext-denotes-different" + (".mixture-dot" if mix else ""), f"extension-free form {plain!r} of Molecule({text!r}) denotes different tokens/descriptors: {d3}")
                cnt["noext_reparsed"] += 1
    # identically seeded generation
    if do_generate and level in ("molecule", "stochastic", "token") and o.generable and o2.generable:
        import numpy as np

        k = rng.randrange(1 << 30)
        res = []
        for obj in (o, o2):
            try:
                with time_limit(60):
                    g = obj.generate(rng=np.random.default_rng(k))
                res.append(("ok", g.smiles, round(g.weight, 6)))
            except StepTimeout:
                res.append(("timeout", "", ""))
            except Exception as exc:
                res.append(("exc", type(exc).__name__, str(exc)[:80]))
        cnt["generation_pairs"] += 1
        # the canonical string is a property of the parsed object: generating from it must not change what it prints
        try:
            c_after = str(o)
        except Exception as exc:
            c_after = f"<str raises {type(exc).__name__}>"
        if c_after != c:
            bad("c01.canonical-string-changes-after-generation", f"{level}({text!r}) printed {c!r}; after one generate() it prints {c_after!r}")
        if res[0][0] == "ok" and res[1][0] == "ok":
            cnt["generation_pairs_ok"] += 1
            if res[0] != res[1]:
                bad("c01.seeded-generation-differs", f"{level}({text!r}) and its canonical form generate {res[0][1]} vs {res[1][1]} for seed {k}")
        elif "timeout" in (res[0][0], res[1][0]):
            cnt["generation_timeouts"] += 1
        elif res[0][0] != res[1][0]:
            if not any("endless loop" in r[2] for r in res if r[0] == "exc"):
                bad("c01.seeded-generation-differs", f"{level}({text!r}) and its canonical form: {res[0]} vs {res[1]} for seed {k}")
    if (("{" in text or re.search(r"\[[$<>]", text)) and (c != text)):
        nt.add(f"{level}:{text}")
    # second generation: the library's own output is an input too
    if depth == 0 and c != text:
        roundtrip(level, c, cnt, viol, nt, rng, False, 1)
        if plain and level in ("molecule", "stochastic", "token") and plain != c:
            roundtrip(level, plain, cnt, viol, nt, rng, False, 1)
    return c


def levels_for(text):
    """which constructors a documented string is meant for (a mixture specifier is not a token, ...)"""
    t = text.strip()
    if ".|" in t:
        return ("molecule", "system")
    if t.startswith("{"):
        return ("stochastic", "molecule")
    if "{" in t:
        return ("molecule",)
    lv = ["token", "molecule"]
    if re.match(r"^[-=#:]?\[[$<>][^\[\]]*\]$", t) or t == "[]":
        lv = ["bond"] + lv
    return tuple(lv)


def env_case_timeout():
    return CASE_TIMEOUT


def op_has_trailing_dot(text):
    return c02.has_trailing_dot_bar(text)


def run_case(case):
    cnt = collections.Counter()
    viol, nt = [], set()
    rng = random.Random(case["seed"])
    sample = None
    if case["kind"] == "corpus":
        corpus = json.load(open(os.path.join(env.VERIF, "corpus.json")))
        for item in corpus[case["lo"] : case["hi"]]:
            for level in levels_for(item["text"]):
                c = roundtrip(level, item["text"], cnt, viol, nt, rng, do_generate=False)
                if c and sample is None and level == "molecule":
                    sample = {"documented": item["text"], "canonical": c}
    elif case["kind"] == "arch":
        for _ in range(case["n"]):
            sp = rng.randrange(256)
            r = rng.random()
            big = False
            if r < 0.2:
                s = gen.make_system(rng)
                c02.assign_mixtures(rng, s)
                level, text = "system", s.to_text(True, sp)
            else:
                m = gen.make_molecule(rng, mean_units=rng.choice([1.5, 2, 3]))
                if rng.random() < 0.25:
                    # connector / suffix tokens written with a leading bond character ("...}=CC{...", "...}#CC"): parse-only inputs
                    from ..ast import TokenAst

                    for k, e in enumerate(m.elements):
                        if k > 0 and isinstance(e, TokenAst) and not e.descriptors():
                            e.root.bond = rng.choice(["=", "#", "="])
                            cnt["leading_bond_tokens"] += 1
                if rng.random() < 0.3:
                    m.mixture = rng.choice([("abs", 5000.0), ("pct", 25.0), ("abs", 5e7), ("pct", 0.5), ("abs", 1.8e16), ("abs", 1234567.890123)])
                big = rng.random() < 0.12
                if big:
                    # distribution parameters with seven and more significant digits (parse / print only: such blocks are far too long to generate)
                    from ..ast import DistAst

                    st0 = rng.choice([e for e in m.elements if isinstance(e, StochAst)])
                    st0.dist = rng.choice([DistAst("uniform", (1234567, 2345678)), DistAst("gauss", (1234567.125, 23456.5)), DistAst("log_normal", (1234567.5, 1.234567)),
                                           DistAst("poisson", (1234567,)), DistAst("schulz_zimm", (2345678.0, 1234567.0)), DistAst("flory_schulz", (1.234567e-7,)), DistAst("uniform", (98765432, 123456789))])
                    st0.dist.pfmt = rng.randrange(6)
                    cnt["big_distribution_parameters"] += 1
                if r < 0.4:
                    st = rng.choice([e for e in m.elements if isinstance(e, StochAst)])
                    level, text = "stochastic", st.to_text(True, sp, True)
                else:
                    level, text = "molecule", m.to_text(True, sp, rng.random() < 0.05)
            lt_ext = level != "system" and any(isinstance(e, StochAst) and e.left.weight is not None for e in m.elements)  # weights / lists on a left terminal travel to the prefix
            c = roundtrip(level, text, cnt, viol, nt, rng, do_generate=rng.random() < (0.6 if lt_ext else 0.12) and not (level != "system" and big))
            if sample is None and c:
                sample = {"level": level, "text": text, "canonical": c}
    else:
        for _ in range(case["n"]):
            tok = c02.random_token(rng)
            text = tok.to_text(True, rng.randrange(4))
            c = roundtrip("token", text, cnt, viol, nt, rng, do_generate=False)
            for d, _ in tok.descriptors()[:2]:
                roundtrip("bond", d.bond + __import__("gbv.ast", fromlist=["print_desc"]).print_desc(d, True, rng.randrange(4)), cnt, viol, nt, rng)
            if sample is None and c:
                sample = {"level": "token", "text": text, "canonical": c}
    cnt["evaluations"] = cnt["roundtrips"]
    out = {"viol": viol[:60], "nt": sorted(nt), "cnt": dict(cnt), "sample": sample}
    if cnt["parse_watchdog"]:
        out["inconclusive"] = f"{cnt['parse_watchdog']} constructor calls hit the 30 s wall-clock watchdog (termination is decided by C15)"
    return out
