"""C08 -- every random decision follows the weights written in the notation."""
import collections
import random

from .. import workloads as W
from ..monitors import rng as R
from ..monitors import trace
from ..ref import model
from ..ref.compat import compat
from . import _gen_common as G

ID = "C08"
LEVEL = "exploration"
CASE_TIMEOUT = 1500
RULE = (
    "(b, deciding) bounded instances of every archetype with forced targets (2-4 growth steps; scalar, zero, equal and list weights; left-terminal "
    "weights/lists; two-block hand-overs): ALL choice sequences of the real generator are enumerated with a scripted numpy Generator, path probabilities "
    "(product of the p handed to rng.choice) are summed per canonical SMILES and compared entry by entry (1e-9) with the exact distribution computed by the "
    "independent reference model from the notation; (a) on random large instances every decision is checked in situ: the p vector of each rng.choice "
    "equals the law on its candidate list, growth partners come from the object's repeat-unit descriptors (or the chosen descriptor's list), capping "
    "partners from its end groups, the prefix' descriptor carries the left terminal's weight, no zero-probability option is taken. Non-trivial: an "
    "instance with >= 2 non-degenerate decisions of which one is non-uniform; distinct by input text."
)
ASSUMPTIONS = [
    "ScriptedRNG treats options with p < 1e-100 as absent",
    "instances whose enumeration exceeds the path limit are reported as truncated and not counted as decided",
    "capping picks use weights among compatible end groups (a list on the open descriptor is used for growth only), as documented in README 'generation'",
]
FLOORS = {"quick": {"exact_instances_decided": 60, "exact_paths": 3000, "decisions_checked": 20000, "distinct_nontrivial": 30}, "thorough": {"exact_instances_decided": 350, "exact_paths": 40000}}


def plan(tier, seed):
    cases = []
    n = 96 if tier == "quick" else 640
    for i in range(n):
        cases.append({"kind": "exact", "seed": seed * 1000403 + i, "arch": G.ARCHS[i % len(G.ARCHS)], "limit": 350 if tier == "quick" else 2500})
    n = 40 if tier == "quick" else 800
    for i in range(n):
        cases.append({"kind": "insitu", "seed": seed * 1000423 + i, "arch": G.ARCHS[i % len(G.ARCHS)], "mols": 5, "gens": 3})
    return cases


def setup_worker():
    W.install()


def same_cands(a, b):
    """candidate lists (triple, weight) equal up to float rounding of list sums"""
    return len(a) == len(b) and all(x[0] == y[0] and abs(x[1] - y[1]) <= 1e-12 * max(abs(x[1]), abs(y[1]), 1e-300) for x, y in zip(a, b))


def law_vector(cands, bond):
    """lawful probability per candidate index (0 for excluded) for a weighted pick among candidates compatible with `bond`"""
    idx = [i for i, c in enumerate(cands) if bond is None or compat(tuple(bond), tuple(c[0]))]
    if not idx:
        return None
    pr = model.weighted([(i, cands[i][1]) for i in idx])
    out = [0.0] * len(cands)
    for i, p in pr:
        out[i] = p
    return out, idx


def check_decisions(subj, events, cnt, viol, label):
    """(a): in-situ law of every decision of one generation"""
    cm = subj.cm
    # windows of stochastic elements, in element order
    stoch = [e for e in cm.elements if isinstance(e, model.CStoch)]
    win = None
    si = -1
    pending = []
    growth_oid = None
    first_open_pick = True
    nondeg = 0
    nonuni = 0
    elem = -1  # index of the element being generated (elements are entered left to right, once each)
    tokwin = None
    for e in events:
        k = e["k"]
        if k == "enter" and e["kind"] in ("stochastic", "token"):
            elem += 1
            tokwin = cm.elements[elem] if (e["kind"] == "token" and elem < len(cm.elements) and isinstance(cm.elements[elem], model.CTok)) else None
        if k == "exit" and e["kind"] == "token":
            tokwin = None
        if k == "attach" and tokwin is not None and win is None:
            # hand-over to a token: the token's descriptor that was bonded must be a lawful pick among its descriptors compatible with the incoming one
            d1, d2 = tuple(e["d1"]), tuple(e["d2"])
            at = e["a2"] - e["n_before"]
            cands = [(d, d.weight) for d in tokwin.descs if compat(d1, d.triple)]
            taken = [d for d, _ in cands if d.triple == d2 and d.atom == at]
            if cands and taken:
                pr = dict((id(d), p) for d, p in model.weighted(cands))
                cnt["token_handover_picks_checked"] += 1
                if not any(pr.get(id(d), 0.0) > 0 for d in taken):
                    viol.append({"cls": "c08.insitu.handover-takes-zero-probability-descriptor", "msg": f"token {tokwin.text} was entered through its descriptor {d2} on atom {at}, which has probability 0 among {[(d.triple, d.atom, w) for d, w in cands]}", "text": subj.text, "label": label})
        if k == "enter" and e["kind"] == "stochastic":
            si += 1
            win = stoch[si] if si < len(stoch) else None
            pending = []
            growth_oid = None
            first_open_pick = True
            continue
        if k == "exit" and e["kind"] == "stochastic":
            win = None
            continue
        if k == "ccw":
            cnt["decisions_checked"] += 1
            lv = law_vector(e["cands"], e["bond"])
            if lv is None:
                continue
            want, idx = lv
            got = e.get("p")
            if got is not None:
                # p is over the compatible candidates in list order
                if len(got) != len(idx) or any(abs(g - want[i]) > 1e-9 for g, i in zip(got, idx)):
                    viol.append({"cls": "c08.insitu.p-vector-not-lawful", "msg": f"rng.choice got p={got} for candidates {[e['cands'][i][:2] for i in idx]}; the law gives {[want[i] for i in idx]}", "text": subj.text, "label": label})
                if len([g for g in got if g > 0]) > 1:
                    nondeg += 1
                    if max(got) - min(g for g in got if g > 0) > 1e-12:
                        nonuni += 1
            if win is not None:
                pending.append(e)
                if e["bond"] is None and first_open_pick and win.left.sym:
                    first_open_pick = False
                    # the prefix' open descriptor is the only one and carries the left terminal's weight / list
                    c = e["cands"]
                    if len(c) == 1 and (abs(c[0][1] - win.left.weight) > 1e-12 or (c[0][2] is None) != (win.left.transitions is None)):
                        viol.append({"cls": "c08.insitu.left-terminal-weight-not-transferred", "msg": f"prefix descriptor has weight {c[0][1]} / list {c[0][2]}, the left terminal {win.left.weight} / {win.left.transitions}", "text": subj.text, "label": label})
            continue
        if k == "choice" and win is not None:
            pending.append(e)
            continue
        if k == "attach" and win is not None:
            if growth_oid is None:
                growth_oid = e["oid"]
            is_growth = e["oid"] == growth_oid
            ccws = [x for x in pending if x["k"] == "ccw"]
            raw = [x for x in pending if x["k"] == "choice"]
            pending = []
            if not ccws:
                continue
            skey = lambda x: (repr(x[0]), float(f"{x[1]:.9e}"))  # noqa: E731  (robust against rounding of list sums)
            rep = sorted(((d.triple, d.weight) for t in win.repeats for d in t.descs), key=skey)
            end = sorted(((d.triple, d.weight) for t in win.ends for d in t.descs), key=skey)
            partner = ccws[-1]
            pc = sorted(((tuple(c[0]), c[1]) for c in partner["cands"]), key=skey)
            # the open descriptor must have been drawn among ALL open descriptors of the growing molecule (the list observed at attach entry)
            open_pick = partner if partner["bond"] is None else (ccws[-2] if len(ccws) >= 2 and ccws[-2]["bond"] is None else None)
            if open_pick is not None and e.get("open_before") is not None:
                oc = sorted(((tuple(c[0]), c[1]) for c in open_pick["cands"]), key=skey)
                ob = sorted(((tuple(t), w) for t, w in e["open_before"]), key=skey)
                cnt["open_picks_checked"] += 1
                if not same_cands(oc, ob):
                    viol.append({"cls": "c08.insitu.open-pick-not-among-all-open-descriptors", "msg": f"the open descriptor was drawn among {oc}, the molecule's open descriptors are {ob}", "text": subj.text, "label": label})
            if partner["bond"] is None:
                # the partner came from a transition list: the last raw choice must carry the chosen open descriptor's list
                opick = partner
                chosen = opick["cands"][opick["idx"]]
                lists = [x for x in raw if x["p"] is not None]
                if chosen[2] is None or not lists:
                    viol.append({"cls": "c08.insitu.partner-pick-missing", "msg": "an attachment was made without a partner pick", "text": subj.text, "label": label})
                else:
                    tot = sum(chosen[2])
                    want = [t / tot for t in chosen[2]]
                    got = lists[-1]["p"]
                    cnt["list_decisions_checked"] += 1
                    if len(got) != len(want) or any(abs(a - b) > 1e-9 for a, b in zip(got, want)):
                        viol.append({"cls": "c08.insitu.list-not-followed", "msg": f"list pick used p={got}, the chosen descriptor's list gives {want}", "text": subj.text, "label": label})
                    if not is_growth:
                        viol.append({"cls": "c08.insitu.list-used-for-capping", "msg": "a transition list was used for a capping pick", "text": subj.text, "label": label})
            elif is_growth:
                if not same_cands(pc, rep):
                    viol.append({"cls": "c08.insitu.growth-candidates-not-repeat-units", "msg": f"growth partner was picked among {pc}, the object's repeat-unit descriptors are {rep}", "text": subj.text, "label": label})
            else:
                if not same_cands(pc, end):
                    viol.append({"cls": "c08.insitu.capping-candidates-not-end-groups", "msg": f"capping partner was picked among {pc}, the object's end-group descriptors are {end}", "text": subj.text, "label": label})
    return nondeg, nonuni


def extension_variants(subj, rng):
    from ..ast import StochAst, clone

    ast = clone(subj.ast)
    changed = False
    for e in ast.elements:
        if not isinstance(e, StochAst):
            continue
        for t in e.repeats + e.ends:
            ds = [d for d, _ in t.descriptors()]
            for d in ds:
                if isinstance(d.weight, list):
                    nz = [i for i, w in enumerate(d.weight) if w != 0.0]
                    vals = [d.weight[i] for i in nz]
                    if len(set(vals)) >= 2:
                        sh = vals[1:] + vals[:1]
                        for i, v in zip(nz, sh):
                            d.weight[i] = v
                        changed = True
            sc = [d for d in ds if not isinstance(d.weight, list)]
            ws = [d.weight for d in sc]
            if len(sc) >= 2 and len(set(map(repr, ws))) >= 2 and rng.random() < 0.5:
                for d, w in zip(sc, ws[1:] + ws[:1]):
                    d.weight = w
                changed = True
    if not changed:
        return []
    try:
        v = W.Subject(subj.seed, ast=ast, targets=dict(subj.targets), sp=subj.sp)
    except ValueError:
        return []
    return [v] if v.closable and v.text != subj.text else []


def run_case(case):
    cnt = collections.Counter()
    viol, nt = [], set()
    sample = None
    if case["kind"] == "exact":
        rng = random.Random(case["seed"])
        subj = None
        for attempt in range(10):
            try:
                forced = [0.4, 1.1, 1.6] if case["arch"] in ("star", "hyper", "graft", "stepgrowth", "comb", "sidecap") else [0.4, 1.1, 2.2, 3.1]
                s = W.Subject(case["seed"] * 17 + attempt, arch=case["arch"], small=True, forced=forced)
            except ValueError:
                continue
            if s.closable:
                subj = s
                break
        if subj is None:
            return {"viol": [], "nt": [], "cnt": {"exact_no_subject": 1}}
        # the same description again with the VALUES of its extensions permuted (non-zero entries of every transition list, scalar weights within a
        # token): same plain text, same sums -- state kept between notations (a cache keyed by the text) would let the first one's law leak into the second
        for subj in [subj] + extension_variants(subj, rng):
            subj.parse()
            cnt["exact_instances"] += 1
            impl = collections.Counter()
            paths, total, nondeg, nonuni = 0, 0.0, 0, 0
            bad_paths = 0

            def run(rg):
                return W.observe_generation(subj.lib, rg, budget=subj.residue_budget())

            for rg, out in R.enumerate_paths(run, limit=case["limit"]):
                obs = out[1]
                paths += 1
                total += rg.prob
                for v in obs["violations"]:
                    if v["cls"].startswith("c08."):
                        v = dict(v)
                        v["text"] = subj.text
                        viol.append(v)
                if obs["status"] != "ok":
                    bad_paths += 1
                    impl[f"<{obs['status']}:{type(obs['exc']).__name__ if obs['exc'] else ''}>"] += rg.prob
                    continue
                impl[obs["mol"].smiles] += rg.prob
                if paths <= 40:
                    a, b = check_decisions(subj, obs["events"], cnt, viol, "script" + ",".join(str(t[0]) for t in rg.trace_ranks))
                    nondeg = max(nondeg, a)
                    nonuni = max(nonuni, b)
            cnt["exact_paths"] += paths
            if not R.enumerate_paths.last["complete"]:
                cnt["exact_truncated"] += 1
            else:
                if abs(total - 1.0) > 1e-9:
                    return {"harness_error": f"path probabilities sum to {total!r} for {subj.text}"}
                try:
                    ref = model.exact_distribution(subj.cm, subj.targets)
                except model.ModelBudget:
                    cnt["exact_ref_budget"] += 1
                    cnt.update(trace.take_counters())
                    return {"viol": G.dedupe(viol), "nt": [], "cnt": dict(cnt)}
                except model.Stuck as exc:
                    return {"harness_error": f"reference model stuck on an input it proved well-posed: {exc}: {subj.text}"}
                cnt["exact_instances_decided"] += 1
                cnt["exact_distinct_molecules"] += len(ref)
                worst = 0.0
                for k in set(ref) | set(impl):
                    a, b = ref.get(k, 0.0), impl.get(k, 0.0)
                    worst = max(worst, abs(a - b))
                    if abs(a - b) > 1e-9:
                        side = "only-generated" if a == 0.0 else ("never-generated" if b == 0.0 else "probability-differs")
                        viol.append({"cls": f"c08.exact.{side}", "msg": f"P({k}) = {b!r} by enumeration of the generator's {paths} choice sequences, {a!r} from the notation", "text": subj.text, "targets": subj.targets, "ref": dict(ref), "impl": dict(impl)})
                        break
                if nondeg >= 2 and nonuni >= 1:
                    nt.add(subj.text)
                sample = {"input": subj.text, "forced_targets": subj.targets, "choice_sequences": paths, "distribution_from_notation": {k: round(v, 6) for k, v in list(ref.items())[:6]}, "max_abs_difference": worst}
    else:
        for k in range(case["mols"]):
            try:
                subj = W.Subject(case["seed"] * 131 + k, arch=case["arch"], small=(k % 2 == 0), families=["gauss", "uniform", "poisson", "log_normal"], mean_units=[2, 4, 7][k % 3])
                subj.parse()
            except Exception:
                cnt["subject_failed"] += 1
                continue
            for gi in range(case["gens"]):
                s = case["seed"] * 7919 + k * 101 + gi
                obs = W.observe_generation(subj.lib, W.spy(s), budget=subj.residue_budget())
                cnt["generations"] += 1
                for v in obs["violations"]:
                    if v["cls"].startswith("c08."):
                        v = dict(v)
                        v["text"] = subj.text
                        viol.append(v)
                for e in obs["events"]:
                    if e["k"] == "choice" and e.get("bad"):
                        viol.append({"cls": "c08.insitu.invalid-probability-vector", "msg": f"rng.choice received an invalid p: {e['bad']}", "text": subj.text})
                if obs["status"] != "ok":
                    continue
                a, b = check_decisions(subj, obs["events"], cnt, viol, f"seed{s}")
                if a >= 2 and b >= 1:
                    nt.add(subj.text)
    cnt.update(trace.take_counters())
    cnt["evaluations"] = cnt["exact_paths"] + cnt["generations"]
    return {"viol": G.dedupe(viol), "nt": sorted(nt), "cnt": dict(cnt), "sample": sample}
