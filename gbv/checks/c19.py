"""C19 -- ensemble probability of linear directed chains equals generation probability."""
import collections
import math
import random

from .. import gen
from ..ast import Desc, DistAst, MolAst, StochAst
from ..monitors import contracts, steps, trace
from ..ref import dist as rd
from ..ref import model
from ..util import StepTimeout, time_limit

ID = "C19"
LEVEL = "exploration"
CASE_TIMEOUT = 1800
RULE = (
    "linear chains of a single directed (< >) repeat unit per block: 1-3 blocks, prefix start or end-group start (light/heavy, weighted end groups), "
    "symmetric (CC) and asymmetric units, all six families; for chain lengths 1..12 the query SMILES is assembled by the harness and "
    "get_ensemble_prob(smiles, molecule)[0] is compared (1e-12 abs + 1e-9 rel; 1e-6 rel for log_normal whose cdf is integrated numerically) with the "
    "reference: product over blocks of P(T<c_n) - P(T<c_(n-1)) from closed-form laws times the exact probability of the choice sequences that build this "
    "molecule (reference model), cross-validated against the real generator by exhaustive path enumeration on the smallest lengths; the values over all "
    "lengths are summed and compared with the object's own total mass; molecules outside the ensemble (foreign end group, foreign atom, swapped blocks) must get "
    "0; every query is repeated on random atom renumberings of the SMILES. Each query runs under a logical line budget (overrun = undecided). "
    "Non-trivial: >= 2 units in some block and a non-trivial renumbering; distinct by (input, lengths)."
)
ASSUMPTIONS = ["queries that exceed the line budget of the (combinatorial) search are undecided and counted"]
FLOORS = {"quick": {"queries_decided": 200, "renumbered_queries": 300, "outside_queries": 60, "distinct_nontrivial": 60}, "thorough": {"queries_decided": 1500}}
LINE_BUDGET = 6_000_000
UNITS = ["CO", "CC", "CCO", "CS", "C(F)C", "CC(C)C(=O)OC", "CN", "C(Cl)C", "C(Br)C"]  # the last two: unit masses with a large fractional part (59.475, 103.926)
FAMS = [
    ("gauss", lambda m: (round(4 * m, 1), round(1.5 * m, 1))), ("gauss", lambda m: (round(2 * m, 1), round(0.8 * m, 1))), ("uniform", lambda m: (int(1.2 * m), int(7 * m))),
    ("log_normal", lambda m: (round(4 * m, 1), 1.3)), ("poisson", lambda m: (round(3.5 * m),)), ("flory_schulz", lambda m: (round(1 / (2 * m), 5),)),
    ("schulz_zimm", lambda m: (round(6 * m), round(4 * m))), ("uniform", lambda m: (0, int(5 * m))),
]


def plan(tier, seed):
    n = 64 if tier == "quick" else 320  # a thorough case costs ~100 s of CPU (the library's search is combinatorial in the chain length)
    return [{"seed": seed * 1001107 + i, "renum": 3 if tier == "quick" else 6, "nmax": 8 if tier == "quick" else 12} for i in range(n)]


def setup_worker():
    contracts.install()


def build(rng, iso_rng=None):
    """-> (MolAst, blocks [(unit smiles text, mass)], head text, tail text)"""
    nb = rng.choice([1, 1, 2, 2, 3])
    start = rng.choice(["prefix", "prefix", "end"])
    if start == "end":
        nb = 1
    els, blocks = [], []
    units = rng.sample(UNITS, nb)
    if nb >= 2 and rng.random() < 0.15:
        nb = 2
        units = [rng.choice(["CO", "CS", "CN", "C(F)C"])] * 2  # adjacent blocks of the SAME (asymmetric) unit: a chain has one reading per way of splitting its units between the blocks
    fam_i = rng.randrange(len(FAMS))
    aba = nb == 3 and len(set(units)) == 3 and rng.random() < 0.35
    if iso_rng is not None and len(set(units)) == nb and iso_rng.random() < 0.15:
        # an isotope-labelled repeat unit: its mass is the mass of the labelled atoms (41.013 instead of 40.021); drawn from a side stream, so
        # that the other cases keep their inputs
        units[iso_rng.randrange(nb)] = iso_rng.choice(["O[13CH2]C", "C[13C](=O)OC", "C[15NH]C"])  # first and last written atom are plain: they carry the descriptors
    if aba:
        units = [units[0], units[1], units[0]]  # symmetric ABA triblock: the first and the third object are written identically
    pfmt = rng.randrange(6)
    for b in range(nb):
        smi = units[b]
        u = gen.build_token(rng, smi, [Desc("<"), Desc(">")], "ends")
        m = gen.fragment_info(smi)[2]
        fam, pf = FAMS[(fam_i + (0 if (aba and b == 2) else b)) % len(FAMS)]
        d = DistAst(fam, pf(m), pfmt if aba else rng.randrange(6), True)
        if start == "prefix":
            s = StochAst(Desc(">"), Desc("<"), [u], [], d)
        else:
            e_in = rng.choice(["F", "Cl", "Br", "I"])  # carries '>' : sits at the head of the chain
            e_out = rng.choice(["[H]", "F", "O", "N", "Br"])  # carries '<' : sits at the tail
            w1, w2 = rng.choice([None, 2.0, 0.5, 0.0]), rng.choice([None, 3.0, 3.0, 0.0])  # a zero next to positive weights: never the start, still a cap
            ends = [gen.single_atom_token(e_out, Desc("<", None, w1)), gen.single_atom_token(e_in, Desc(">", None, w2))]
            if rng.random() < 0.4:
                ends.append(gen.single_atom_token(rng.choice(["S", "C"]), Desc("<", None, rng.choice([None, 1.5, 0.0]))))
            s = StochAst(Desc(""), Desc(""), [u], ends, d)
        els.append(s)
        blocks.append((gen.parse_fragment(smi).to_text(), m))
    if start == "prefix":
        # heads include symmetric multi-atom fragments (CC, NCCN): both atom mappings of the start fragment must be tried
        head, tail = rng.choice(["F", "Cl", "BrC", "OC", "NCC", "CC", "NCCN", "CCC"]), rng.choice(["Cl", "F", "CBr", "CO", "CCN", "CC"])
        els = [gen.plain_token(head)] + els + [gen.plain_token(tail)]
        return MolAst(els), blocks, head, tail, start
    return MolAst(els), blocks, None, None, start


def chain_smiles(blocks, lengths, head, tail):
    return head + "".join(u * n for (u, m), n in zip(blocks, lengths)) + tail


def pi_n(ref, m, n):
    f = getattr(ref, "p_less_on_integers", ref.p_less)  # Schulz-Zimm draws come from the density on integer masses
    return f(n * m) - (f((n - 1) * m) if n > 1 else 0.0)


def parse_keep_h(smi):
    from rdkit import Chem

    params = Chem.SmilesParserParams()
    params.removeHs = False
    return Chem.MolFromSmiles(smi, params)


def randomized(smi, rng, k):
    from rdkit import Chem

    mol = parse_keep_h(smi)
    out = []
    for _ in range(k):
        perm = list(range(mol.GetNumAtoms()))
        rng.shuffle(perm)
        m2 = Chem.RenumberAtoms(mol, perm)
        out.append(Chem.MolToSmiles(m2, canonical=False))
    return out


def query(smi, M, cnt):
    from gbigsmiles import get_ensemble_prob

    try:
        with time_limit(120):
            with steps.line_budget(LINE_BUDGET):
                res = get_ensemble_prob(smi, M)
    except StepTimeout:
        cnt["watchdog"] += 1
        return None
    except steps.StepBudgetExceeded:
        cnt["queries_over_budget"] += 1
        return None
    except Exception as exc:  # an exception is an observation, not a harness error
        cnt["queries_raised"] += 1
        return exc
    p = res[0] if isinstance(res, tuple) else res
    return float(p)


def run_case(case):
    import gbigsmiles
    from rdkit import Chem

    rng = random.Random(case["seed"])
    cnt = collections.Counter()
    viol, nt = [], set()
    ast, blocks, head, tail, start = build(rng, random.Random(case["seed"] ^ 0x13C))
    text = ast.to_text()
    try:
        M = gbigsmiles.Molecule(text)
    except Exception as exc:
        return {"viol": [{"cls": "c19.valid-input-rejected", "msg": f"{type(exc).__name__}: {exc}", "text": text}], "cnt": {}, "nt": []}
    cm = model.compile_molecule(ast)
    stoch = [(i, e) for i, e in enumerate(ast.elements) if isinstance(e, StochAst)]
    refs = [rd.make(e.dist.family, e.dist.params) for i, e in stoch]
    fam_tol = 1e-6 if any(e.dist.family == "log_normal" for i, e in stoch) else 1e-9
    region = ".gauss-single-unit" if False else ""

    def reference(lengths, smi_canon):
        """probability that generation produces this molecule"""
        targets = {}
        for (i, e), (u, m), n in zip(stoch, blocks, lengths):
            targets[i] = (n - 0.5) * m
        try:
            distr = model.exact_distribution(cm, targets, work=20000)
        except (model.Stuck, model.ModelBudget):
            return None
        pch = distr.get(smi_canon, 0.0)
        p = pch
        for r, (u, m), n in zip(refs, blocks, lengths):
            p *= pi_n(r, m, n)
        last_pch[0] = pch
        return p

    last_pch = [0.0]

    sample = None
    nmax = case["nmax"]
    # (1) values for many length combinations
    combos = []
    if len(blocks) == 1:
        combos = [(n,) for n in range(1, nmax + 1)]
    else:
        same_unit = len({u for u, m in blocks}) == 1
        for _ in range(nmax):
            combos.append(tuple(rng.randint(1, 3 if same_unit else max(2, nmax // 2)) for _ in blocks))
        combos = sorted(set(combos))
    total = 0.0
    total_ref = 0.0
    decided_all = True
    member_canon = set()
    # every molecule prefix + units^n (n >= 1 per block) + suffix is a member; remember a generous set of them
    if start == "prefix":
        import itertools as _it

        for ls in _it.product(range(1, 7), repeat=len(blocks)):
            mm = parse_keep_h(chain_smiles(blocks, ls, head, tail))
            if mm is not None:
                member_canon.add(Chem.MolToSmiles(mm))
    for lengths in combos:
        if start == "prefix":
            smi = chain_smiles(blocks, lengths, head, tail)
            variants = [smi]
        else:
            st = stoch[0][1]
            variants = []
            ends_used = {}
            for e_out in [t for t in st.ends if t.descriptors()[0][0].sym == "<"]:
                for e_in in [t for t in st.ends if t.descriptors()[0][0].sym == ">"]:
                    v = e_in.atoms[0].atom + blocks[0][0] * lengths[0] + e_out.atoms[0].atom
                    variants.append(v)
                    ends_used[v] = (e_in, e_out)
            variants = variants[:2]
        for smi in variants:
            mol = parse_keep_h(smi)
            if mol is None:
                continue
            canon = Chem.MolToSmiles(mol)
            # all length tuples that denote this very molecule (blocks of one and the same unit can share their units in several ways)
            equiv = [tuple(lengths)]
            if start == "prefix" and len(blocks) >= 2 and len({u for u, m in blocks}) == 1:
                import itertools as _it3

                N = sum(lengths)
                equiv = [c for c in _it3.product(range(1, N), repeat=len(blocks)) if sum(c) == N]
            want, pch_of_query = 0.0, 1.0
            for R in equiv:
                w = reference(R, canon)
                if w is None:
                    want = None
                    break
                want += w
                pch_of_query = last_pch[0]
            if want is None:
                cnt["reference_undecided"] += 1
                decided_all = False
                continue
            got = query(smi, M, cnt)
            if got is None:
                decided_all = False
                continue
            if isinstance(got, Exception):
                decided_all = False
                zero_w = any(d.weight == 0.0 for i, e in stoch for t in e.repeats + e.ends for d, _ in t.descriptors())
                cls = "c19.query-raises." + type(got).__name__ + (".zero-weight-candidates" if zero_w and isinstance(got, ZeroDivisionError) else "")
                viol.append({"cls": cls, "msg": f"get_ensemble_prob({smi!r}) raised {type(got).__name__}: {got} (generation produces the molecule with probability {want!r})", "text": text, "smiles": smi, "lengths": lengths})
                continue
            cnt["queries_decided"] += 1
            total += got
            total_ref += want
            tol = 1e-12 + fam_tol * max(abs(want), abs(got))
            if abs(got - want) > tol:
                cls = "c19.value-differs"
                if got == 0.0 and want > 0:
                    cls = "c19.ensemble-member-gets-zero"
                # Listed mechanisms predict the library's value exactly, alone or composed:
                #  (g) a single-unit block under a gauss law is evaluated on the interval (0, m] instead of (-inf, m];
                #  (s) prefix start, suffix with the same atoms as the last block's unit: the reading "one more unit and no suffix" is added;
                #  (w) end-group start with several end groups of one direction: the partner's weight is normalised within the candidate
                #      token (factor 1 for a one-descriptor end group): pi_n x (P_start(head group) x [cap possible] + P_start(tail group));
                #  (a) the result is multiplied by the number of automorphisms of the query molecule.
                autos = len(mol.GetSubstructMatches(mol, uniquify=False, maxMatches=64))

                def lib_pi(e, r, m, n):
                    return (r.cdf(m) - r.cdf(0.0)) if (e.dist.family == "gauss" and n == 1) else pi_n(r, m, n)

                def near(x, y):
                    return abs(x - y) <= 1e-12 + max(fam_tol, 1e-9) * max(abs(x), abs(y))

                pch = pch_of_query  # probability of the choice sequences that build this molecule (targets permitting); 1 for prefix chains
                g_used = any(e.dist.family == "gauss" and n == 1 for (i, e), n in zip(stoch, lengths))
                cands = []  # (predicted value, class when it matches with multiplicity 1)
                def lib_value(Rs):
                    tot = 0.0
                    for R in Rs:
                        p = pch
                        for (i, e), r, (u, m), n in zip(stoch, refs, blocks, R):
                            p *= lib_pi(e, r, m, n)
                        tot += p
                    return tot

                parts = [lib_value(equiv)]
                if start == "prefix" and gen.parse_fragment(tail).to_text() == blocks[-1][0]:
                    if len(equiv) > 1 or (len(blocks) >= 2 and len({u for u, m in blocks}) == 1):
                        import itertools as _it4

                        N1 = sum(lengths) + 1
                        alt = [c for c in _it4.product(range(1, N1), repeat=len(blocks)) if sum(c) == N1]  # every split of one more unit
                    else:
                        alt = [tuple(R[:-1]) + (R[-1] + 1,) for R in equiv]
                    parts.append(lib_value(alt))
                g_used = g_used or any(e.dist.family == "gauss" and 1 in [R[k] for R in equiv] for k, (i, e) in enumerate(stoch))
                if g_used:
                    cands.append((parts[0], "c19.value-differs.gauss-single-unit-omits-negative-targets"))
                if len(parts) > 1 and parts[1] > tol:
                    cands.append((sum(parts), "c19.value-differs.chain-end-unit-without-suffix-also-matched"))
                if start == "end":
                    ends_all = stoch[0][1].ends
                    syms = [t.descriptors()[0][0].sym for t in ends_all]
                    if len(syms) != len(set(syms)):
                        ps = dict((id(t), p) for t, p in model.weighted([(t, t.descriptors()[0][0].eff_weight) for t in ends_all]))
                        e_in, e_out = ends_used[smi]
                        pin = lib_pi(stoch[0][1], refs[0], blocks[0][1], lengths[0])
                        # a zero-weight cap next to a positive-weight competitor is never taken (also by the library): only the other start path
                        w_out = e_out.descriptors()[0][0].eff_weight
                        others_out = [t.descriptors()[0][0].eff_weight for t in ends_all if t is not e_out and t.descriptors()[0][0].sym == "<"]
                        cap_out = 0.0 if (w_out == 0.0 and any(w > 0 for w in others_out)) else (1.0 / (1 + len(others_out)) if w_out == 0.0 else 1.0)
                        cands.append(((ps.get(id(e_in), 0.0) * cap_out + ps.get(id(e_out), 0.0)) * pin, "c19.value-differs.partner-weight-normalised-within-candidate-token"))
                if cls == "c19.value-differs":
                    if autos > 1 and want > 0 and near(got, autos * want):
                        cls = "c19.value-multiplied-by-automorphism-count"
                    else:
                        for pred, c in cands:
                            if pred > 0 and near(got, pred):
                                cls = c
                                break
                            if pred > 0 and autos > 1 and near(got, autos * pred):
                                cls = "c19.value-multiplied-by-automorphism-count"
                                break
                viol.append({"cls": cls, "msg": f"P({smi}) = {got!r}, generation produces it with probability {want!r} (block lengths {lengths})", "text": text, "smiles": smi, "lengths": lengths})
            if max(lengths) >= 2:
                # (2) atom-order independence
                for rs in randomized(smi, rng, case["renum"]):
                    g2 = query(rs, M, cnt)
                    if g2 is None or isinstance(g2, Exception):
                        continue
                    cnt["renumbered_queries"] += 1
                    if abs(g2 - got) > 1e-12 + 1e-9 * max(abs(g2), abs(got)):
                        viol.append({"cls": "c19.depends-on-atom-order", "msg": f"P({smi}) = {got!r} but the same molecule written {rs} gives {g2!r}", "text": text, "smiles": smi, "renumbered": rs})
                        break
                    if rs != smi:
                        nt.add(f"{text}#{lengths}")
            if sample is None:
                sample = {"input": text, "query": smi, "lengths": lengths, "reported": got, "reference": want}
    # (3) sum over all lengths (single block): compare with the object's own total mass, not twice the C11 deficit
    if len(blocks) == 1 and decided_all and start == "prefix":
        r = refs[0]
        m = blocks[0][1]
        tail_mass = 1.0 - getattr(r, 'p_less_on_integers', r.p_less)(nmax * m)
        if tail_mass < 0.02:
            cnt["sum_checks"] += 1
            if abs(total - total_ref) > 1e-6 and not viol:  # a differing term is reported on its own
                viol.append({"cls": "c19.sum-over-lengths-differs", "msg": f"sum over lengths 1..{nmax} = {total!r}, generation probabilities sum to {total_ref!r}", "text": text})
    # (4) molecules outside the ensemble
    lengths = tuple(rng.randint(1, 4) for _ in blocks)
    outs = []
    if start == "prefix":
        base = chain_smiles(blocks, lengths, head, tail)
        outs.append(chain_smiles(blocks, lengths, head, "[Si]"))
        outs.append(chain_smiles(blocks, lengths, "P", tail))
        outs.append(head + "[Se]" + "".join(u * n for (u, m), n in zip(blocks, lengths)) + tail)
        # a block that contributes no unit at all is outside the ensemble (at least one unit is always added)
        for b in range(len(blocks)):
            zl = tuple(0 if i == b else n for i, n in enumerate(lengths))
            outs.append(chain_smiles(blocks, zl, head, tail))
        outs.append(head + tail)
        if len(blocks) >= 2 and blocks[0][0] != blocks[1][0]:
            outs.append(chain_smiles(list(reversed(blocks)), tuple(reversed(lengths)), head, tail) if chain_smiles(list(reversed(blocks)), tuple(reversed(lengths)), head, tail) != base else None)
    else:
        outs.append("[Si]" + blocks[0][0] * lengths[0] + "[Se]")
        outs.append("P" + blocks[0][0] * lengths[0] + "P")
        st = stoch[0][1]
        e_out = [t for t in st.ends if t.descriptors()[0][0].sym == "<"][0].atoms[0].atom
        e_in = [t for t in st.ends if t.descriptors()[0][0].sym == ">"][0].atoms[0].atom
        outs.append(e_in + e_out)  # no repeat unit at all
    for smi in outs:
        if not smi or parse_keep_h(smi) is None:
            continue
        if start == "prefix" and Chem.MolToSmiles(parse_keep_h(smi)) == Chem.MolToSmiles(parse_keep_h(chain_smiles(blocks, lengths, head, tail))):
            continue
        got = query(smi, M, cnt)
        if got is None or isinstance(got, Exception):
            cnt["outside_query_raised"] += int(isinstance(got, Exception))
            continue
        cnt["outside_queries"] += 1
        if got > 0:
            # symmetric cases where the 'swapped' molecule is still a member are excluded by the reference
            canon_out = Chem.MolToSmiles(parse_keep_h(smi))
            want = reference(lengths, canon_out)
            member = canon_out in member_canon
            if (want is not None and want == 0.0) and not member:
                cls = "c19.outside-molecule-gets-positive-probability"
                if start == "prefix" and gen.parse_fragment(tail).to_text() == blocks[-1][0]:
                    # listed mechanism (s): the molecule is "units and no suffix" -- head + units^n without the suffix token
                    import itertools as _it2

                    pred = 0.0
                    for ls in _it2.product(range(1, 8), repeat=len(blocks)):
                        mm = parse_keep_h(chain_smiles(blocks, ls, head, ""))
                        if mm is not None and Chem.MolToSmiles(mm) == canon_out:
                            p = 1.0
                            for (i, e), r, (u, m), n in zip(stoch, refs, blocks, ls):
                                p *= (r.cdf(m) - r.cdf(0.0)) if (e.dist.family == "gauss" and n == 1) else pi_n(r, m, n)
                            pred += p
                    mo = parse_keep_h(smi)
                    autos_o = len(mo.GetSubstructMatches(mo, uniquify=False, maxMatches=64))
                    if pred > 0 and any(abs(got - k * pred) <= 1e-12 + max(fam_tol, 1e-9) * max(got, k * pred) for k in {1, autos_o}):
                        cls += ".chain-end-unit-without-suffix-also-matched"
                viol.append({"cls": cls, "msg": f"P({smi}) = {got!r} although generation can never produce it", "text": text, "smiles": smi})
    cnt.update(trace.take_counters())
    cnt["evaluations"] = cnt["queries_decided"] + cnt["renumbered_queries"] + cnt["outside_queries"]
    seen = collections.Counter()
    out = []
    for v in viol:
        seen[v["cls"]] += 1
        if seen[v["cls"]] <= 4:
            out.append(v)
    return {"viol": out, "nt": sorted(nt), "cnt": dict(cnt), "sample": sample}
