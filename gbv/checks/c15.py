"""C15 -- ill-formed notation and misuse are rejected, never silently reinterpreted; parsing terminates."""
import collections
import random
import re

from .. import gen
from .. import workloads as W
from ..ast import Desc, MolAst, StochAst, TokenAst, print_desc
from ..monitors import steps, trace
from ..util import StepTimeout, time_limit
from . import c02

ID = "C15"
LEVEL = "exploration"
CASE_TIMEOUT = 1500
RULE = (
    "(a) breaking operators, each violating exactly one structural rule of the statement at a random position of a valid instance of a random archetype "
    "(the untouched instance must parse): drop '(' / ')' , drop ']' / '}', descriptor between two bonded atoms, unknown descriptor symbol, unknown "
    "distribution name, transition list too short / too long, negative weight, text after a mixture specifier, percentage < 0 or > 100, generate on a "
    "non-generable token / object / molecule / system, missing prefix for a non-empty left terminal, prefix whose descriptor differs in symbol or id; "
    "expectation per operator: must raise at construction / must be non-generable and raise on generate / must raise on generate (any exception type "
    "counts). (b) termination: byte-level mutations (delete, duplicate, swap, insert from the notation's alphabet) of valid strings parsed by all five "
    "constructors under a logical budget of library lines (sys.monitoring) of 100x the count of the valid string + 50000. Non-trivial: an operator "
    "application that changed a string whose original parses; distinct by (operator, text)."
)
ASSUMPTIONS = ["any exception type counts as rejection", "wall clock is only an outer watchdog (inconclusive), the termination verdict is the line budget"]
FLOORS = {"quick": {"operator_applications": 900, "mutants_parsed": 20000, "distinct_nontrivial": 800}, "thorough": {"operator_applications": 20000, "mutants_parsed": 500000}}
ALPHABET = list("CNOcn()[]{}$<>|.,;=#-0123456789 %") + ["Cl", "Br", "[H]", "gauss(", ".|", "|"]


def plan(tier, seed):
    cases = []
    n = 48 if tier == "quick" else 1000
    for i in range(n):
        cases.append({"kind": "ops", "seed": seed * 1000703 + i, "n": 30})
    n = 48 if tier == "quick" else 1200
    for i in range(n):
        cases.append({"kind": "mutate", "seed": seed * 1000721 + i, "n": 100})
    return cases


def setup_worker():
    W.install()


def ctor(level):
    import gbigsmiles

    return {
        "bond": lambda t: gbigsmiles.BondDescriptor(t, 0, "", 0),
        "token": lambda t: gbigsmiles.SmilesToken(t, 0, 0),
        "stochastic": lambda t: gbigsmiles.Stochastic(t, 0),
        "molecule": lambda t: gbigsmiles.Molecule(t),
        "system": lambda t: gbigsmiles.System(t),
        "stochastic-call": lambda t: _StochCall(gbigsmiles, t),
        "token-call": lambda t: _TokenCall(gbigsmiles, t),
        "element-alone": lambda t: _ElementAlone(gbigsmiles, t),
    }[level]


class _ElementAlone:
    """misuse of the call interface: a stochastic object whose left terminal is not [] is asked to generate WITHOUT a prefix.  The object is one the
    public API hands out: an element of a parsed molecule, or an element of the mirror image Molecule.gen_mirror() (terminals change sides)"""

    generable = True

    def __init__(self, gbigsmiles, t):
        self.text, self.route, self.idx = t
        m = gbigsmiles.Molecule(self.text)
        if self.route == "mirror":
            m = m.gen_mirror()
        self.obj = m.elements[self.idx]
        if not isinstance(self.obj, gbigsmiles.Stochastic):
            raise AssertionError("harness: element is not a stochastic object")

    def generate(self, rng):
        return self.obj.generate(rng=rng)

    def __str__(self):
        how = "Molecule(%r)" % self.text + (".gen_mirror()" if self.route == "mirror" else "")
        return f"{how}.elements[{self.idx}].generate()  # no prefix"


class _TokenCall:
    """misuse of the call interface: SmilesToken.generate(prefix=<molecule without open descriptor>)"""

    generable = True

    def __init__(self, gbigsmiles, t):
        import numpy as np

        self.text = t
        self.pre = gbigsmiles.Molecule(t[0]).generate(rng=np.random.default_rng(11))
        if len(self.pre.bond_descriptors) != 0:
            raise RuntimeError("harness: prefix molecule is not complete")
        self.tok = gbigsmiles.SmilesToken(t[1], 0, 5)

    def generate(self, rng):
        return self.tok.generate(prefix=self.pre, rng=rng)

    def __str__(self):
        return f"SmilesToken({self.text[1]!r}).generate(prefix=Molecule({self.text[0]!r}).generate())"


class _StochCall:
    """misuse of the call interface: Stochastic.generate(prefix=MolGen(token))"""

    generable = True

    def __init__(self, gbigsmiles, t):
        from gbigsmiles.mol_gen import MolGen

        self.text = t
        self.pre = MolGen(gbigsmiles.SmilesToken(t[0], 0, 0))
        self.obj = gbigsmiles.Stochastic(t[1], 1)

    def generate(self, rng):
        return self.obj.generate(prefix=self.pre, rng=rng)

    def __str__(self):
        return f"Stochastic({self.text[1]!r}).generate(prefix=MolGen(SmilesToken({self.text[0]!r})))"


# ------------------------------------------------------------------ operators -----------------
def _tokens_of(m):
    out = []
    for e in m.elements:
        if isinstance(e, TokenAst):
            out.append(e)
        else:
            out += e.repeats + e.ends
    return out


def op_drop_paren(rng, m):
    toks = [t for t in _tokens_of(m) if "(" in t.to_text()]
    if not toks:
        return None
    t = rng.choice(toks)
    old = t.to_text()
    pos = [i for i, ch in enumerate(old) if ch in "()"]
    # do not touch parentheses inside a descriptor's |...| (there are none) -- descriptors contain no parens
    i = rng.choice(pos)
    new = old[:i] + old[i + 1 :]
    full = m.to_text()
    if full.count(old) != 1:
        return None
    return "molecule", full.replace(old, new), "construct"


def op_drop_bracket(rng, m):
    full = m.to_text()
    pos = [i for i, ch in enumerate(full) if ch in "]}"]
    if not pos:
        return None
    i = rng.choice(pos)
    return "molecule", full[:i] + full[i + 1 :], "construct"


def op_desc_between_atoms(rng, m):
    toks = [t for t in _tokens_of(m) if len(t.atoms) >= 2]
    if not toks:
        return None
    t = rng.choice(toks)
    old = t.to_text()
    # find two consecutive plain atoms "CC" in the text (chain continuation) outside brackets
    cand = [mm.start() + 1 for mm in re.finditer(r"(?<![\[A-Za-z])[CNO](?=[CNO](?![a-z]))", old) if old.count("[", 0, mm.start()) == old.count("]", 0, mm.start())]
    # ... and positions where the next atom follows a closed branch or a ring-closure digit: 'C(C)|C', 'C1|C'
    cand += [mm.end() for mm in re.finditer(r"[)0-9](?=[=#]?[CNOc](?![a-z]))", old) if old.count("[", 0, mm.start()) == old.count("]", 0, mm.start()) and old.count("|", 0, mm.start()) % 2 == 0]
    if not cand:
        return None
    i = rng.choice(cand)
    new = old[:i] + rng.choice(["[>]", "[$]", "[<2]", "=[$]"]) + old[i:]
    full = m.to_text()
    if full.count(old) != 1:
        return None
    return "molecule", full.replace(old, new), "construct"


def op_unknown_symbol(rng, m):
    full = m.to_text()
    ds = list(re.finditer(r"\[([$<>])", full))
    if not ds:
        return None
    d = rng.choice(ds)
    return "molecule", full[: d.start(1)] + rng.choice("&?!~^") + full[d.end(1) :], "construct"


def op_unknown_distribution(rng, m):
    full = m.to_text()
    ds = list(re.finditer(r"\|(gauss|uniform|schulz_zimm|log_normal|poisson|flory_schulz)\(", full))
    if not ds:
        return None
    d = rng.choice(ds)
    known = d.group(1)
    # names that merely CONTAIN a documented name (prefix, suffix, other case, doubled, two names) are unknown names too
    derived = [known + "ian", known + "_int", known + "2", "inverse_" + known, "non_" + known, "x" + known, known.upper(), known.capitalize(), known + known, known[:-1], known[1:], known + "_" + rng.choice(["gauss", "uniform", "poisson"]) if known not in ("gauss", "uniform", "poisson") else "my_" + known]
    bad = rng.choice(["gamma", "normal", "weibull", "flory", "lognormal", "Gauss"] + derived)
    if bad in ("gauss", "uniform", "schulz_zimm", "log_normal", "poisson", "flory_schulz"):
        bad = "inverse_" + known
    return "molecule", full[: d.start(1)] + bad + full[d.end(1) :], "construct"


def op_list_length(rng, m):
    objs = [e for e in m.elements if isinstance(e, StochAst)]
    e = rng.choice(objs)
    n = len(e.all_descs())
    reps = [d for d, kind, ti, a in e.all_descs() if kind == "repeat"]
    d = d_main = rng.choice(reps)
    # side stream (the main stream is consumed exactly as before, so every other case keeps its input): the wrong-length list may sit on an
    # END-GROUP descriptor of the object -- the rule speaks of the descriptors of the stochastic object, not of its repeat units
    import zlib

    side = random.Random(zlib.crc32(m.to_text().encode()))
    endds = [x for x, kind, ti, a in e.all_descs() if kind == "end"]
    if endds and side.random() < 0.4:
        d = side.choice(endds)
    k = rng.choice([n - 1, n + 1, n + 3, max(2, n // 2)]) if n > 2 else n + 1
    if k < 2 or k == n:
        k = n + 1
    d.weight = [1.0] * k
    # another descriptor of the same object keeps / gets a list of the CORRECT length: every list must be checked, not one
    others = [x for x in reps if x is not d_main]
    if others and rng.random() < 0.7:
        o = rng.choice(others)
        if o.transitions is None or len(o.transitions) != n:
            o.weight = [1.0] * n
    return "molecule", m.to_text(), "construct"


def op_negative_weight(rng, m):
    objs = [e for e in m.elements if isinstance(e, StochAst)]
    e = rng.choice(objs)
    d = rng.choice([d for d, kind, ti, a in e.all_descs()])
    d.weight = -abs(rng.choice([1.0, 0.5, 3.0]))
    return "molecule", m.to_text(), "nongenerable"


def op_text_after_mixture(rng, m):
    m.mixture = ("abs", 5000.0)
    # ... also text that itself ends in a complete mixture specifier (a Molecule holds ONE molecule: everything behind the first specifier is text after it)
    return "molecule", m.to_text() + rng.choice(["CC", "C", "{[$][$]C[$][$]}", "O", "CCC.|50%|", ".|50%|", "CC.|700|", "C.|150%|", "O.|5e3|"]), "construct"


def op_percentage_range(rng, m):
    m.mixture = ("pct", 50.0)
    t = m.to_text()
    return "molecule", re.sub(r"\.\|[^|]*%\|$", ".|" + rng.choice(["120", "-5", "100.5", "1e3", "-0.1"]) + "%|", t), "construct"


def op_no_distribution(rng, m):
    """generate on a non-generable object: a stochastic object without distribution"""
    objs = [e for e in m.elements if isinstance(e, StochAst)]
    rng.choice(objs).dist = None
    return "molecule", m.to_text(), "nongenerable"


def op_missing_prefix(rng, m):
    objs = [i for i, e in enumerate(m.elements) if isinstance(e, StochAst)]
    i = objs[0]
    if not m.elements[i].left.sym or i == 0:
        return None
    m.elements = m.elements[i:]
    return "molecule", m.to_text(), "generate"


def op_wrong_prefix(rng, m):
    objs = [i for i, e in enumerate(m.elements) if isinstance(e, StochAst)]
    i = objs[0]
    left = m.elements[i].left
    if not left.sym or i == 0 or not isinstance(m.elements[0], TokenAst):
        return None
    sym = {"<": ">", ">": "<", "$": rng.choice("<>")}[left.sym] if rng.random() < 0.5 else left.sym
    did = left.id if sym != left.sym else (7 if left.id != 7 else 8)
    pre = m.elements[0]
    txt = pre.to_text() + print_desc(Desc(sym, did))
    rest = "".join(e.to_text(True, 0, False) if isinstance(e, TokenAst) else e.to_text(True, 0, False) for e in m.elements[1:])
    return "molecule", txt + rest, "generate"


def _bidirectional_object(rng):
    """A stochastic object that a prefix with the WRONG descriptor could enter silently: its units and end groups offer a partner for the
    wrong descriptor too, and its right end is closed.  -> (prefix token AST, StochAst, wrong descriptor)"""
    ctx = gen.Ctx(rng, small=rng.random() < 0.6, form="dir")
    if rng.random() < 0.5:
        # wrong symbol: '<' where the left terminal says '>'
        u = [ctx.unit([ctx.lt(), ctx.gt()]) for _ in range(rng.choice([1, 1, 2]))]
        ends = [ctx.end(ctx.lt()), ctx.end(ctx.gt())]
        left, wrong = gen.D(">", ctx.base_id), gen.D("<", ctx.base_id)
    else:
        # wrong id: the other id of an alternating pair
        i1, i2 = rng.sample([1, 2, 3, 4, 11, 25], 2)
        u = [ctx.unit([ctx.lt(i1), ctx.gt(i2)]), ctx.unit([ctx.lt(i2), ctx.gt(i1)])]
        ends = [ctx.end(ctx.lt(i1)), ctx.end(ctx.lt(i2))]
        left, wrong = gen.D(">", i1), gen.D(">", i2)
    s = StochAst(left, gen.D(""), u, ends, gen._dist_for(ctx, u, 2))
    return ctx.plain(), s, wrong


def op_wrong_prefix_enterable(rng, m):
    pre, s, wrong = _bidirectional_object(rng)
    return "molecule", pre.to_text() + print_desc(wrong) + s.to_text(True, 0, False), "generate"


def op_wrong_prefix_direct(rng, m):
    """Stochastic.generate(prefix=...) called directly with a fragment whose open descriptor differs from the left terminal"""
    pre, s, wrong = _bidirectional_object(rng)
    return "stochastic-call", (pre.to_text() + print_desc(wrong), s.to_text(True, 0, False)), "generate"


def op_prefix_two_open(rng, m):
    """Stochastic.generate(prefix=...) with a prefix fragment that has two open descriptors (one expected)"""
    pre, s, wrong = _bidirectional_object(rng)
    return "stochastic-call", (print_desc(Desc(s.left.sym, s.left.id)) + pre.to_text() + print_desc(Desc(s.left.sym, s.left.id)), s.to_text(True, 0, False)), "generate"


def _closed_object(rng):
    ctx = gen.Ctx(rng, small=True)
    u = ctx.unit([ctx.lt(), ctx.gt()])
    ends = [ctx.end(ctx.lt()), ctx.end(ctx.gt())]
    return ctx, StochAst(gen.D(""), gen.D(""), [u], ends, gen._dist_for(ctx, [u], 2))


def op_token_after_closed_object(rng, m):
    """a token (or a second object) written behind a stochastic object whose right terminal is the empty descriptor []: the finished, closed
    molecule offers no descriptor to attach to -- generation has to refuse, not to drop the polymer and return the token"""
    ctx, s = _closed_object(rng)
    tail = ctx.plain().to_text() if rng.random() < 0.7 else _closed_object(rng)[1].to_text(True, 0, False)
    return "molecule", s.to_text(True, 0, False) + tail, "generate"


def op_complete_prefix_to_token(rng, m):
    """SmilesToken.generate(prefix=<fully generated molecule>): a prefix without open descriptor"""
    ctx, s = _closed_object(rng)
    tok = ctx.unit([ctx.lt()], ctx.pool1).to_text()
    return "token-call", (s.to_text(True, 0, False), tok), "generate"


def op_object_alone(rng, m):
    """an object with a non-empty left terminal generated without prefix; half of the time the object is taken from the mirror image of a molecule
    whose first object starts from an end group (left terminal [] as written, non-empty after mirroring)"""
    import gbigsmiles

    ctx = gen.Ctx(rng, small=True)
    u1 = ctx.unit([ctx.lt(), ctx.gt()])
    rt = ctx.lt()
    s1 = StochAst(gen.D(""), gen.D(rt.sym, rt.id), [u1], [ctx.end(ctx.lt()), ctx.end(ctx.gt())], gen._dist_for(ctx, [u1], 2))
    els = [s1]
    if rng.random() < 0.5:
        u2 = ctx.unit([ctx.lt(), ctx.gt()])
        lt = ctx.gt()
        if rng.random() < 0.5:
            els.append(StochAst(gen.D(lt.sym, lt.id), gen.D(""), [u2], [ctx.end(ctx.lt()), ctx.end(ctx.gt())], gen._dist_for(ctx, [u2], 2)))
        else:
            els.append(StochAst(gen.D(lt.sym, lt.id), gen.D(rt.sym, rt.id), [u2], [], gen._dist_for(ctx, [u2], 2)))
            els.append(ctx.plain())
    else:
        els.append(ctx.plain())
    mol = MolAst(els)
    text = mol.to_text(True, 0)
    n = len(els)
    # (route, index in the list the API hands out) of every object whose left terminal is non-empty THERE
    cands = [("parsed", i) for i, e in enumerate(els) if isinstance(e, StochAst) and e.left.sym]
    cands += [("mirror", n - 1 - i) for i, e in enumerate(els) if isinstance(e, StochAst) and e.right.sym]
    route, idx = rng.choice(cands)
    try:
        M = gbigsmiles.Molecule(text)
        if not M.generable or M.gen_mirror() is None:
            return None
    except Exception:
        return None
    return "element-alone", (text, route, idx), "generate"


def op_system_nongenerable(rng, m):
    t = m.to_text()
    if rng.random() < 0.5:
        # the same component texts were part of a DETERMINED system a moment ago (same process): nothing of it may make this one generable
        import gbigsmiles

        for planted in (t + ".|30%|CCO.|700|", t + ".|30%|CCO.|70%|"):
            try:
                gbigsmiles.System(planted, 1000.0)
                gbigsmiles.System(planted)
            except Exception:
                pass
    return "system", t + ".|30%|CCO.|70%|", "nongenerable"


OPS = {
    "drop-paren": op_drop_paren,
    "drop-bracket": op_drop_bracket,
    "descriptor-between-atoms": op_desc_between_atoms,
    "unknown-descriptor-symbol": op_unknown_symbol,
    "unknown-distribution": op_unknown_distribution,
    "transition-list-length": op_list_length,
    "negative-weight": op_negative_weight,
    "text-after-mixture": op_text_after_mixture,
    "percentage-out-of-range": op_percentage_range,
    "object-without-distribution": op_no_distribution,
    "missing-prefix": op_missing_prefix,
    "prefix-descriptor-differs": op_wrong_prefix,
    "prefix-descriptor-differs-enterable": op_wrong_prefix_enterable,
    "prefix-descriptor-differs-direct-call": op_wrong_prefix_direct,
    "prefix-with-two-open-descriptors": op_prefix_two_open,
    "system-not-generable": op_system_nongenerable,
    "token-after-closed-object": op_token_after_closed_object,
    "complete-prefix-handed-to-token": op_complete_prefix_to_token,
    "object-with-left-terminal-generated-alone": op_object_alone,
}


def probe(level, text, expectation, cnt):
    """-> None if rejected as expected, else a message"""
    try:
        with time_limit(30):
            with steps.line_budget(5_000_000):
                obj = ctor(level)(text)
    except StepTimeout:
        cnt["watchdog"] += 1
        return "watchdog"
    except steps.StepBudgetExceeded:
        return f"parsing exceeded the logical budget of 5e6 library lines"
    except BaseException as exc:
        cnt["rejected_at_construction"] += 1
        cnt["exc_" + type(exc).__name__] += 1
        return None
    if expectation == "construct":
        return f"{level} constructor accepted the string (printed back as {safe_str(obj)!r})"
    if expectation == "nongenerable":
        try:
            gflag = obj.generable
        except Exception:
            gflag = False
        if gflag:
            return f"{level} object reports generable = True"
    import numpy as np

    trace.reset()
    try:
        with time_limit(60):
            g = obj.generate(rng=np.random.default_rng(5))
    except StepTimeout:
        cnt["watchdog"] += 1
        return "watchdog"
    except BaseException as exc:
        if any(e["k"] == "draw_exc" for e in trace.events):
            cnt["undecided_draw_failed"] += 1
            return "undecided"
        cnt["rejected_at_generate"] += 1
        cnt["exc_" + type(exc).__name__] += 1
        return None
    return f"generate() returned {getattr(g, 'smiles', g)!r} instead of raising"


def safe_str(o):
    try:
        return str(o)
    except Exception as e:
        return f"<str raises {type(e).__name__}>"


def mutate(rng, s):
    k = rng.randint(1, 3)
    for _ in range(k):
        if not s:
            break
        i = rng.randrange(len(s))
        op = rng.random()
        if op < 0.3:
            s = s[:i] + s[i + 1 :]
        elif op < 0.5:
            s = s[:i] + s[i] + s[i:]
        elif op < 0.65 and len(s) > 1:
            j = rng.randrange(len(s))
            l = list(s)
            l[i], l[j] = l[j], l[i]
            s = "".join(l)
        elif op < 0.8:
            j = rng.randrange(i, min(len(s), i + 12))
            s = s[:i] + s[j:]
        else:
            s = s[:i] + rng.choice(ALPHABET) + s[i:]
    return s


def run_case(case):
    rng = random.Random(case["seed"])
    cnt = collections.Counter()
    viol, nt = [], set()
    sample = None
    if case["kind"] == "ops":
        names = sorted(OPS)
        for k in range(case["n"]):
            name = names[(k + case["seed"]) % len(names)]
            try:
                # the prefix operators need a prefix; a closed right end makes a wrong prefix generate silently if the check is gone
                arch = rng.choice(["homo", "homo", "graft", "alternating", "comb"]) if name in ("prefix-descriptor-differs", "missing-prefix") else None
                m = gen.make_molecule(rng, arch, small=rng.random() < 0.5, mean_units=2)
            except ValueError:
                continue
            orig = m.to_text()
            try:
                ctor("molecule")(orig)
            except Exception:
                cnt["original_rejected"] += 1
                continue
            try:
                res = OPS[name](rng, m)
            except (IndexError, ValueError):
                res = None
            if res is None:
                cnt["operator_not_applicable"] += 1
                continue
            level, text, expectation = res
            if text == orig:
                cnt["operator_no_change"] += 1
                continue
            cnt["operator_applications"] += 1
            cnt["op_" + name] += 1
            msg = probe(level, text, expectation, cnt)
            nt.add(f"{name}:{text}")
            if msg in ("watchdog", "undecided"):
                continue
            if msg is not None:
                if "logical budget" in msg:
                    viol.append({"cls": "c15.parse-does-not-terminate", "msg": f"operator {name}: {msg}", "text": text, "operator": name})
                else:
                    viol.append({"cls": f"c15.not-rejected.{name}", "msg": f"operator {name} (expectation: {expectation}) on {orig!r} gave {text!r}: {msg}", "text": text, "operator": name})
            if sample is None:
                sample = {"operator": name, "valid": orig, "broken": text, "expectation": expectation, "outcome": msg or "rejected"}
    else:
        levels = ["bond", "token", "stochastic", "molecule", "system"]
        for k in range(case["n"]):
            r = rng.random()
            if r < 0.25:
                s = gen.make_system(rng, small=True)
                c02.assign_mixtures(rng, s)
                base = s.to_text(True, rng.randrange(256))
            else:
                m = gen.make_molecule(rng, small=rng.random() < 0.7)
                if rng.random() < 0.3:
                    m.mixture = ("pct", 25.0)
                base = m.to_text(True, rng.randrange(256))
                if r > 0.85:
                    st = [e for e in m.elements if isinstance(e, StochAst)][0]
                    base = st.to_text(True, 0)
                if r > 0.95:
                    base = rng.choice(_tokens_of(m)).to_text()
            with steps.line_budget() as b0:
                try:
                    ctor("system")(base)
                except BaseException:
                    pass
            base_lines = b0["count"]
            text = mutate(rng, base)
            budget = 100 * base_lines + 50000
            for level in levels:
                cnt["mutants_parsed"] += 1
                try:
                    with time_limit(60):
                        with steps.line_budget(budget) as b:
                            ctor(level)(text)
                    cnt["mutant_accepted"] += 1
                except StepTimeout:
                    cnt["watchdog"] += 1
                except steps.StepBudgetExceeded:
                    viol.append({"cls": "c15.parse-does-not-terminate", "msg": f"{level} constructor used more than {budget} library lines on {text!r} (the valid string it was mutated from needs {base_lines})", "text": text, "level": level})
                except MemoryError:
                    viol.append({"cls": "c15.parse-exhausts-memory", "msg": f"{level} constructor exhausted memory on {text!r}", "text": text, "level": level})
                except BaseException:
                    cnt["mutant_rejected"] += 1
                cnt["max_lines"] = max(cnt["max_lines"], b["count"])
            if sample is None:
                sample = {"valid": base, "mutant": text, "budget_lines": budget}
    mx = cnt.pop("max_lines", 0)
    cnt["evaluations"] = cnt["operator_applications"] + cnt["mutants_parsed"]
    out = {"viol": viol[:30], "nt": sorted(nt), "cnt": dict(cnt), "sample": sample}
    if cnt["watchdog"]:
        out["inconclusive"] = f"{cnt['watchdog']} probes hit the wall-clock watchdog"
    return out
