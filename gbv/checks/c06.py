"""C06 -- well-posed molecules generate to completion, in the written element order."""
from . import _gen_common as G

ID = "C06"
LEVEL = "exploration"
CASE_TIMEOUT = G.CASE_TIMEOUT
RULE = (
    "inputs of every archetype that the reference model's closability analysis (gbv.ref.model.closable) proves well-posed; random streams and all choice "
    "sequences of bounded instances; for each: generation must not raise, must stay within a logical residue budget, return fully_generated, every "
    "descriptor's atom carries exactly as many inter-residue bonds as descriptors written on it, token elements occur once, each object contributes a "
    "repeat unit, only consecutive elements are bonded (by exactly one bond, through descriptors admitted by the terminals), end groups are leaves. "
    "Non-trivial: well-posed input with >= 2 elements or >= 2 end-group types; distinct by input text."
)
ASSUMPTIONS = ["inputs bounded by the generator (DESIGN 2.1); generations whose distribution draw fails are skipped and counted (C09/C11)"]
FLOORS = {"quick": {"closable_audited": 600, "distinct_nontrivial": 100}, "thorough": {"closable_audited": 12000}}


def plan(tier, seed):
    return G.plan_common(tier, seed, 60 if tier == "quick" else 1200, 40 if tier == "quick" else 400)


def setup_worker():
    G.W.install()


def run_case(case):
    out = G.run_common("c06", case)
    from ..monitors import trace

    out.setdefault("cnt", {}).update(trace.take_counters())
    return out


def finalize(datas, cnt, nt, tier, seed):
    res = {}
    if cnt.get("subjects", 0) and cnt.get("subjects_closable", 0) < 0.6 * cnt["subjects"]:
        res["inconclusive"] = [f"only {cnt.get('subjects_closable', 0)} of {cnt['subjects']} generated inputs were proved well-posed (floor 60%)"]
    return res
