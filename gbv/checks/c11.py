"""C11 -- each molecular-weight distribution is one coherent probability law."""
import collections
import math
import random

import numpy as np

from ..monitors.rng import ScriptedRNG, SpyRNG
from ..oracles.parse import dist_fields
from ..ref import dist as rd
from ..util import StepTimeout, time_limit

ID = "C11"
LEVEL = "exploration"
CASE_TIMEOUT = 1800
RULE = (
    "one case = one (family, parameters): grids + random parameters for all six families (small/large means, narrow/broad, Schulz-Zimm z<1, z=1, z>>1, "
    "Flory-Schulz a from 0.5 to 1e-3). Internal coherence of the object: prob_mw >= 0 and finite on a grid, sum over the integer support / integral = 1 "
    "within max(1e-6, max density), additivity and monotonicity of interval probabilities, interval = sum of masses / integral of the density, every "
    "scripted quantile of the draw (grid incl. 1e-9 tails) gives a finite in-support value that is the generalised inverse of the object's own "
    "cumulative function. Agreement with the documented law (gbv.ref.dist closed forms): cumulative values, density on integers, mean of raw draws "
    "(z-test 6.5 sigma, re-confirmed), chi-square GOF (1e-5, re-confirmed); str() reproduces the parameters; unknown names are rejected. "
    "Non-trivial: >= 100 distinct quantiles evaluated and density, interval and draw all exercised; distinct by (family, parameters)."
)
ASSUMPTIONS = [
    "statistical clauses need two independent rejections (overall false-alarm bound < 1e-9 per case)",
    "a draw that exceeds the 10 s watchdog is only classified (known finding) when the quantile lies above the object's own total probability mass; otherwise it is inconclusive",
]
FLOORS = {"quick": {"quantile_draws": 4000, "cases_decided": 30, "distinct_nontrivial": 20}, "thorough": {"quantile_draws": 100000, "cases_decided": 110}}

GRID = {
    "gauss": [(100, 10), (1000, 50), (5000, 150), (10, 1), (500, 200), (15000, 150), (250, 0.5), (500, 0.25), (1200, 0.1), (40, 0.02)],
    "uniform": [(12, 72), (500, 600), (0, 10), (1000, 5000), (100, 200)],
    "log_normal": [(50, 1.1), (500, 1.5), (5000, 1.02), (100, 2.5), (1000, 1.2)],
    "poisson": [(1,), (10,), (65,), (500,), (3000,)],
    "flory_schulz": [(0.5,), (0.11,), (0.01,), (0.0011,), (0.1,), (9e-4,)],
    "schulz_zimm": [(150, 100), (1500, 1400), (5000, 4500), (1000, 950), (1700, 1600), (200, 100), (1000, 450), (400, 300), (1000, 600), (4500, 3500)],
}


# realistic polymer masses (tens of kg/mol): tables, caches or truncations sized for the small examples of the documentation show up here
GRID_LARGE = {
    "gauss": [(80000, 8000)],
    "uniform": [(50000, 120000)],
    "log_normal": [(60000, 1.3)],
    "poisson": [(90000,)],
    "schulz_zimm": [(75000, 50000)],
    "flory_schulz": [(2e-5,)],
}
GRID_LARGE_THOROUGH = {"schulz_zimm": [(200000, 150000), (120000, 100000)], "flory_schulz": [(5e-6,)], "log_normal": [(250000, 1.8)], "gauss": [(1e6, 1e5)]}


def plan(tier, seed):
    cases = []
    for fam, lst in list(GRID_LARGE.items()) + (list(GRID_LARGE_THOROUGH.items()) if tier == "thorough" else []):
        for p in lst:
            cases.append({"family": fam, "params": list(p), "seed": seed, "nq": 160 if tier == "quick" else 600, "nd": 3000 if tier == "quick" else 10000})
    for fam, lst in GRID.items():
        for p in lst:
            cases.append({"family": fam, "params": list(p), "seed": seed, "nq": 160 if tier == "quick" else 2000, "nd": 3000 if tier == "quick" else 20000})
    rng = random.Random(seed * 7 + 3)
    for i in range(12 if tier == "quick" else 120):
        fam = rng.choice(sorted(GRID))
        if fam == "gauss":
            m = round(10 ** rng.uniform(1, 4), 1)
            p = (m, round(m * rng.uniform(0.001, 0.5), 2))
        elif fam == "uniform":
            lo = rng.randint(0, 3000)
            p = (lo, lo + rng.randint(1, 3000))
        elif fam == "log_normal":
            p = (round(10 ** rng.uniform(1.3, 4), 1), round(1 + 10 ** rng.uniform(-2, 0.3), 3))
        elif fam == "poisson":
            p = (round(10 ** rng.uniform(0, 3.5), 1),)
        elif fam == "flory_schulz":
            p = (round(10 ** rng.uniform(-3, -0.3), 5),)
        else:
            mn = round(10 ** rng.uniform(1.7, 3.7), 0)
            p = (round(mn * rng.uniform(1.02, 1.95), 0), mn)
        cases.append({"family": fam, "params": list(p), "seed": seed + i + 1, "nq": 160 if tier == "quick" else 1500, "nd": 3000 if tier == "quick" else 20000})
    return cases


def interval(a, b):
    from gbigsmiles.mol_prob import RememberAdd

    r = RememberAdd(float(a))
    r += float(b) - float(a)
    return r


def text_of(fam, params, style=0):
    from ..ast import DistAst

    return DistAst(fam, tuple(params), style, style % 2 == 0).to_text()


def chi2_sf(x, k):
    from scipy import special

    return float(special.gammaincc(k / 2.0, x / 2.0))


def run_case(case):
    from gbigsmiles.distribution import get_distribution

    fam, params = case["family"], tuple(case["params"])
    cnt = collections.Counter()
    viol = []
    label = f"{fam}{params}"
    ref = rd.make(fam, params)
    rng = random.Random(case["seed"] * 1000003 + hash(label) % 1000)

    def bad(cls, msg, **kw):
        d = {"cls": cls, "msg": f"{label}: {msg}", "dist": label}
        d.update(kw)
        viol.append(d)

    def region():
        if fam == "schulz_zimm" and params[0] > 2 * params[1]:
            return ".schulz-zimm-z-below-1"
        return ""

    # ---- other families with coinciding numbers are parsed (and used once) first
    for dt in rd.decoy_texts(fam, params):
        try:
            dd = get_distribution(dt)
            dd.prob_mw(float(params[0]))
            cnt["decoys_parsed"] += 1
        except Exception:
            pass
    # ---- construction, text form, unknown names
    try:
        D = get_distribution(text_of(fam, params, rng.randrange(6)))
    except Exception as exc:
        bad("c11.valid-parameters-rejected", f"constructor raised {type(exc).__name__}: {exc}")
        return {"viol": viol, "cnt": dict(cnt), "nt": []}
    got = dist_fields(D)
    if got is None or got[0] != fam or len(got[1]) != len(params) or any(abs(a - float(b)) > 1e-12 * max(1, abs(float(b))) for a, b in zip(got[1], params)):
        bad("c11.text-form-differs", f"str() = {D.generate_string(True)!r}")
    for name in ["gamma(3, 4)", "normal(100,10)", "weibull(2)", "schulz(100,50)", "floryschulz(0.1)"] + rd.unknown_names(fam, params, rng):
        try:
            dd = get_distribution(name)
            bad("c11.unknown-name-accepted", f"get_distribution({name!r}) returned an object ({dd.generate_string(True)!r}): only {rd.KNOWN_NAMES} are documented names")
        except Exception:
            cnt["unknown_names_rejected"] += 1

    # ---- grid of masses
    lo_q, hi_q = 1e-7, 1 - 1e-7
    x_lo = ref.ppf(lo_q) if fam != "uniform" else params[0]
    x_hi = ref.ppf(hi_q) if fam != "uniform" else params[1]
    if fam == "gauss" and params[1] == 0:
        x_lo, x_hi = params[0] - 5, params[0] + 5
    # lower end of the cumulative intervals: far below the support, but not so far that a + (b - a) loses digits
    L = params[0] - 40.0 * max(params[1], 1e-3) if fam == "gauss" else (-5.0 if fam != "uniform" else params[0] - 10.0)
    discrete = fam in ("poisson", "flory_schulz", "schulz_zimm")

    # a second object of the SAME family with other (valid) parameters is asked every question first: each distribution object is one law of its
    # own, nothing it answers may depend on what another object was asked (a table or memo keyed by the mass alone would)
    shadow = None
    try:
        sp = {"gauss": lambda p: (p[0] * 1.3 + 1, p[1] * 0.7 + 0.5), "uniform": lambda p: (int(p[0]) + 7, int(p[1]) + 29), "log_normal": lambda p: (p[0] * 1.6, min(p[1] * 1.1, 3.0)),
              "poisson": lambda p: (p[0] * 1.5 + 1,), "flory_schulz": lambda p: (min(p[0] * 0.6, 0.5),), "schulz_zimm": lambda p: (p[0] * 1.5, p[1] * 1.2)}[fam](params)
        shadow = get_distribution(text_of(fam, sp, 1))
        cnt["shadow_objects"] += 1
    except Exception:
        shadow = None

    _k = [0]

    def ask_shadow(arg):
        _k[0] += 1
        if shadow is not None and _k[0] % 4 == 0:  # every fourth question is enough to plant stale answers
            try:
                with time_limit(5):
                    shadow.prob_mw(arg)
                cnt["shadow_questions"] += 1
            except BaseException:
                pass

    def P(a, b):
        ask_shadow(interval(a, b))
        return float(D.prob_mw(interval(a, b)))

    def dens(x):
        ask_shadow(x)
        return float(D.prob_mw(x))

    # ---- density: non-negative, finite; normalisation
    dmax = 0.0
    total = None
    if discrete:
        K = int(min(max(x_hi, 20), 40000))
        ks = list(range(0, K + 1))
        pm = []
        for k in ks:
            try:
                v = dens(k)
            except Exception as exc:
                bad("c11.density-raises" + region(), f"prob_mw({k}) raised {type(exc).__name__}: {exc}")
                v = float("nan")
            pm.append(v)
        cnt["density_points"] += len(pm)
        nonfinite = [k for k, v in zip(ks, pm) if not math.isfinite(v)]
        if nonfinite:
            bad("c11.density-not-finite" + region(), f"prob_mw({nonfinite[0]}) = {pm[nonfinite[0]]}")
        neg = [k for k, v in zip(ks, pm) if math.isfinite(v) and v < 0]
        if neg:
            bad("c11.density-negative", f"prob_mw({neg[0]}) = {pm[neg[0]]}")
        fin = [v for v in pm if math.isfinite(v)]
        dmax = max(fin) if fin else 0.0
        total = sum(fin)
        tail = 1.0 - ref.cdf(K)
        if not nonfinite and abs(total + tail - 1.0) > max(1e-6, dmax):
            bad("c11.not-normalised" + region(), f"sum of prob_mw over 0..{K} = {total!r} (+ reference tail {tail:.2e}), tolerance max(1e-6, max density {dmax:.3g})")
        # density on integers agrees with the documented formula
        for k in rng.sample(ks[1:], min(60, len(ks) - 1)):
            want = ref.pmf(k) if hasattr(ref, "pmf") else ref.pdf(k)
            if math.isfinite(pm[k]) and abs(pm[k] - want) > 1e-9 * max(want, 1e-300) + 1e-15:
                bad("c11.density-differs-from-documented-law" + region(), f"prob_mw({k}) = {pm[k]!r}, documented formula gives {want!r}")
                break
    else:
        n = 4001
        xs = np.linspace(x_lo, x_hi, n)
        ys = []
        for x in xs:
            ys.append(dens(float(x)))
        cnt["density_points"] += n
        ys = np.asarray(ys)
        if not np.all(np.isfinite(ys)):
            bad("c11.density-not-finite", f"prob_mw({xs[~np.isfinite(ys)][0]}) not finite")
        elif np.any(ys < 0):
            bad("c11.density-negative", f"prob_mw({xs[ys < 0][0]}) = {ys[ys < 0][0]}")
        else:
            if not (fam == "gauss" and params[1] == 0):
                total = float(np.trapezoid(ys, xs))
                if abs(total - 1.0) > 2e-4:
                    bad("c11.not-normalised", f"integral of prob_mw over [{x_lo:.4g}, {x_hi:.4g}] = {total!r}")
                for x in rng.sample(list(xs), 40):
                    want = ref.pdf(float(x))
                    if abs(dens(float(x)) - want) > 1e-9 * max(want, 1e-300) + 1e-15:
                        bad("c11.density-differs-from-documented-law", f"prob_mw({x}) = {dens(float(x))!r}, documented formula gives {want!r}")
                        break

    # ---- interval probabilities: additivity, monotonicity, = sum of masses / integral, = documented cdf
    tol_c = 1e-6 if fam == "log_normal" else 1e-9
    pts = sorted(rng.uniform(x_lo, x_hi) for _ in range(24))
    if discrete:
        pts = sorted(set(float(int(p)) for p in pts)) + [float(int(x_hi) + 3)]
    cum_fail = False
    for i in range(len(pts) - 2):
        a, b, c = pts[i], pts[i + 1], pts[i + 2]
        try:
            pab, pbc, pac = P(a, b), P(b, c), P(a, c)
        except Exception as exc:
            bad("c11.interval-raises" + region(), f"interval probability raised {type(exc).__name__}: {exc}")
            break
        cnt["interval_triples"] += 1
        if not all(map(math.isfinite, (pab, pbc, pac))):
            bad("c11.interval-not-finite" + region(), f"P({a},{b})={pab}, P({b},{c})={pbc}, P({a},{c})={pac}")
            break
        if min(pab, pbc, pac) < -1e-12:
            bad("c11.interval-negative", f"P({a},{b})={pab}, P({b},{c})={pbc}")
        if abs(pab + pbc - pac) > 1e-9:
            bad("c11.interval-not-additive", f"P({a},{b}) + P({b},{c}) = {pab + pbc!r} but P({a},{c}) = {pac!r}")
        if discrete and total is not None:
            s = sum(pm[k] for k in range(int(a) + 1, int(b) + 1) if k < len(pm) and math.isfinite(pm[k]))
            # scipy saturates a cumulative sum that exceeds 1, which can remove at most the excess mass
            if int(b) < len(pm) and abs(s - pab) > 1e-9 + max(0.0, total - 1.0):
                bad("c11.interval-differs-from-mass-sum" + region(), f"P({a},{b}) = {pab!r} but the masses in ({a},{b}] sum to {s!r}")
        want = ref.cdf(b) - ref.cdf(a)
        tol = (dmax + 1e-9) if fam == "schulz_zimm" else tol_c
        if abs(pab - want) > tol and not cum_fail:
            cum_fail = True
            bad("c11.cumulative-differs-from-documented-law" + region(), f"P({a},{b}) = {pab!r}, documented law gives {want!r} (tolerance {tol:.3g})")

    def F(x):
        return P(L, x)

    # ---- every scripted quantile of the draw
    nq = case["nq"]
    draws_ok = 0
    if fam != "poisson":
        qs = [1e-9, 1e-6, 1e-3, 0.5, 1 - 1e-3, 1 - 1e-6] + [(i + rng.random()) / nq for i in range(nq)]
        runaway_seen = False
        for q in qs:
            if fam == "gauss" and params[1] == 0 and not (0 < q < 1):
                continue
            if runaway_seen and total is not None and q > total - 1e-12:
                cnt["quantiles_above_total_mass_skipped"] += 1
                continue
            cnt["quantile_draws"] += 1
            try:
                with time_limit(4):
                    T = float(D.draw_mw(ScriptedRNG(default_q=q)))
            except StepTimeout:
                if total is not None and q > total - 1e-12:
                    if not runaway_seen:
                        bad("c11.draw-runaway.quantile-above-total-mass", f"draw for quantile {q!r} did not return within 4 s; the object's masses sum to {total!r} < q, so the inverse-cdf search never brackets", q=q)
                    runaway_seen = True
                else:
                    cnt["draw_watchdog_unclassified"] += 1
                continue
            except MemoryError:
                if total is not None and q > total - 1e-12:
                    if not runaway_seen:
                        bad("c11.draw-runaway.quantile-above-total-mass", f"draw for quantile {q!r} exhausted memory; the object's masses sum to {total!r} < q", q=q)
                    runaway_seen = True
                continue
            except Exception as exc:
                t = f"{type(exc).__name__}: {exc}"
                cls = "c11.draw-raises"
                if "endless loop" in t:
                    cls += ".endless-loop"
                cnt["draw_raised"] += 1
                if cnt["draw_raised"] <= 3:
                    bad(cls + region(), f"draw for quantile {q!r} raised {t}", q=q)
                continue
            if not math.isfinite(T):
                bad("c11.draw-not-finite", f"draw for quantile {q} = {T}")
                continue
            s_lo, s_hi = ref.support()
            if T < s_lo - 1e-9 or T > s_hi + 1e-9 or (discrete and T != int(T)):
                # Flory-Schulz: the library's support starts at 0 with mass 0 there
                if not (fam == "flory_schulz" and T == 0):
                    bad("c11.draw-out-of-support", f"draw for quantile {q} = {T}, support {ref.support()}")
            try:
                if discrete:
                    hi_ok = F(T) >= q - 1e-9
                    lo_ok = T <= 0 or F(T - 1) < q + 1e-9
                    if not (hi_ok and lo_ok):
                        bad("c11.draw-not-inverse-of-own-cdf" + region(), f"draw for quantile {q!r} = {T}, but the object's cumulative gives F({T - 1}) = {F(T - 1) if T > 0 else 0!r}, F({T}) = {F(T)!r}")
                elif not (fam == "gauss" and params[1] == 0):
                    if abs(F(T) - q) > 1e-6:
                        bad("c11.draw-not-inverse-of-own-cdf", f"draw for quantile {q!r} = {T!r}, but the object's cumulative gives F(T) = {F(T)!r}")
            except Exception:
                pass
            draws_ok += 1

    # ---- raw draws: documented mean and goodness of fit
    def sample(n, seed):
        out, failed = [], 0
        g = SpyRNG(seed)
        hung = 0
        for _ in range(n):
            try:
                with time_limit(3):
                    out.append(float(D.draw_mw(g)))
            except StepTimeout:
                failed += 1
                hung += 1
                if hung >= 3:
                    cnt["raw_sampling_cut_short"] += 1
                    break
            except Exception:
                failed += 1
        return out, failed

    def stats_reject(xs):
        n = len(xs)
        if n < 100:
            return None
        m = sum(xs) / n
        sd = math.sqrt(ref.var() / n) if ref.var() > 0 else 0.0
        rej = []
        if sd > 0 and abs(m - ref.mean()) > 6.5 * sd + (0.6 if discrete else 0.0):
            rej.append(f"mean of {n} draws {m:.6g}, documented mean {ref.mean():.6g} (6.5 sigma = {6.5 * sd:.3g})")
        if sd == 0 and abs(m - ref.mean()) > 1e-9:
            rej.append(f"mean {m} of a zero-width law with mean {ref.mean()}")
        # chi-square on bins of equal reference probability
        if sd > 0:
            nb = 16
            edges = []
            for i in range(1, nb):
                e = ref.ppf(i / nb)
                edges.append(math.ceil(e) - 0.5 if discrete else e)
            edges = sorted(set(edges))
            probs, prev = [], 0.0
            for e in edges:
                c = ref.cdf(e)
                probs.append(c - prev)
                prev = c
            probs.append(1.0 - prev)
            if min(probs) * n >= 8 and len(probs) >= 4 and fam != "schulz_zimm" or (fam == "schulz_zimm" and params[1] >= 100 and min(probs) * n >= 8):
                counts = [0] * len(probs)
                import bisect

                for x in xs:
                    counts[bisect.bisect_right(edges, x)] += 1
                chi = sum((c - n * p) ** 2 / (n * p) for c, p in zip(counts, probs))
                if chi2_sf(chi, len(probs) - 1) < 1e-5:
                    rej.append(f"chi-square {chi:.1f} on {len(probs)} bins of the documented law (n={n})")
        return rej

    if not (fam == "schulz_zimm" and params[0] > 2 * params[1]):
        xs, failed = sample(case["nd"], case["seed"] * 2 + 11)
        cnt["raw_draws"] += len(xs)
        cnt["raw_draws_failed"] += failed
        if any(not math.isfinite(x) for x in xs):
            bad("c11.draw-not-finite", "a raw draw is not finite")
        # draws that raise (listed finding: scipy's discrete quantile search) fail for particular quantiles, so the surviving sample is
        # conditioned on them and says nothing about the law: the statistical clause is then undecided (the exact quantile clauses above decide)
        rej = stats_reject(xs) if not failed else []
        if failed:
            cnt["statistics_undecided_draw_failures"] += 1
        if rej:
            xs2, failed2 = sample(2 * case["nd"], case["seed"] * 2 + 12)
            rej2 = stats_reject(xs2) if not failed2 else []
            cnt["statistical_reconfirmations"] += 1
            if rej2:
                bad("c11.draws-differ-from-documented-law" + region(), "; ".join(rej2))
    nt = []
    if draws_ok >= 100 or (fam == "poisson" and cnt["raw_draws"] >= 100):
        nt.append(label)
    cnt["cases_decided"] += 1
    cnt["evaluations"] = cnt["quantile_draws"] + cnt["raw_draws"] + cnt["density_points"]
    return {"viol": viol, "cnt": dict(cnt), "nt": nt, "sample": {"distribution": label, "quantile_draws": cnt["quantile_draws"], "raw_draws": cnt["raw_draws"], "sum_or_integral": total}}
