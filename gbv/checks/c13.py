"""C13 -- ensemble generation yields complete member molecules up to the system mass."""
import collections
import random

from .. import gen
from .. import workloads as W
from ..ast import MolAst, SysAst, fmt_float
from ..monitors import trace
from ..oracles import genaudit
from ..oracles.parse import molecules_of
from ..ref import model
from ..util import StepTimeout, time_limit

ID = "C13"
LEVEL = "exploration"
CASE_TIMEOUT = 1500
RULE = (
    "systems of 1-4 components (every archetype + small molecules), system mass from 0.5x to ~60x the mean molecule mass, specified by absolute masses "
    "or n-1 percentages + one absolute mass; System.generator is iterated with a spying Generator (through the property's underlying function): every "
    "yielded molecule must be fully generated; two iterations of one system object advanced alternately must each obey the stop rule (also probed with components that are generable but can never be completed: missing suffix, lone token with a descriptor -- they must be refused, alone or among ordinary components) and pass the residue audit (C05/C06 oracle) against exactly one declared component; with the library's own "
    "left-to-right partial sums s_k the sequence must end at the first k with s_k >= M; a non-generable system must refuse both iteration and "
    "System.generate; System.generate must return a fully generated member. Non-trivial: >= 2 components and >= 5 molecules yielded; distinct by system text."
)
ASSUMPTIONS = ["residue ids of a system must stay <= 25 (library names residues A..Z); larger generated systems are skipped and counted"]
FLOORS = {"quick": {"open_component_systems": 12, "open_generate_refused": 20, "systems_iterated": 60, "molecules_yielded": 1000, "nongenerable_probed": 8, "exact_boundary_hit": 30, "distinct_nontrivial": 15}, "thorough": {"systems_iterated": 1500, "molecules_yielded": 15000}}


def plan(tier, seed):
    n = 96 if tier == "quick" else 2000
    cases = [{"seed": seed * 1000507 + i, "kind": "gen" if i % 6 else "nongen"} for i in range(n)]
    for i in range(24 if tier == "quick" else 400):
        cases.append({"seed": seed * 1000537 + i, "kind": "open"})
    for i in range(16 if tier == "quick" else 200):
        cases.append({"seed": seed * 1000517 + i, "kind": "exact"})
    return cases


def setup_worker():
    W.install()


def make_system(rng, ncomp=None, small_targets=True):
    ncomp = ncomp or rng.choice([1, 2, 2, 3, 3, 4])
    mols = []
    solvents = ["CCO", "C1CCOC1", "CC(=O)C", "c1ccccc1", "CCCCCC", "CO", "CS", "[H][H]"]  # incl. a component without any heavy atom
    rng.shuffle(solvents)
    for i in range(ncomp):
        if rng.random() < 0.35 and i > 0:
            mols.append(MolAst([gen.plain_token(solvents[i])], arch="small"))
        else:
            arch = rng.choice(["homo", "endinit", "random", "stepgrowth", "alternating", "star", "graft", "hyper", "lists", "block", "comb"])
            mols.append(gen.make_molecule(rng, arch, small=True, families=["gauss", "uniform", "poisson", "log_normal"], mean_units=rng.choice([1.5, 3, 5])))
    return SysAst(mols)


def est_mass(m):
    from ..ast import StochAst, TokenAst

    tot = 0.0
    for e in m.elements:
        if isinstance(e, TokenAst):
            tot += gen.fragment_info(e.name)[2] if e.name else 14
        else:
            tot += {"gauss": lambda p: p[0], "uniform": lambda p: (p[0] + p[1]) / 2, "poisson": lambda p: p[0], "log_normal": lambda p: p[0], "schulz_zimm": lambda p: p[1], "flory_schulz": lambda p: 2 / p[0]}[e.dist.family](e.dist.params) + 30
    return tot


def assign(rng, s, scale):
    """returns declared fractions; writes mixture specifiers so that the library can infer everything"""
    n = len(s.mols)
    while True:
        cuts = sorted(rng.uniform(0.05, 0.95) for _ in range(n - 1))
        fr = [b - a for a, b in zip([0.0] + cuts, cuts + [1.0])]
        pct = [round(100 * f, 2) for f in fr]
        pct[-1] = round(100 - sum(pct[:-1]), 2)
        if min(pct) >= 0.05:
            break  # the property speaks of POSITIVE masses and percentages: two cuts that coincide after rounding would declare a share of 0
    mean = sum(est_mass(m) for m in s.mols) / n
    M = round(mean * scale, 1)
    if rng.random() < 0.5 or n == 1:
        for m, p in zip(s.mols, pct):
            m.mixture = ("abs", p / 100.0 * M)
    else:
        k = rng.randrange(n)
        for i, (m, p) in enumerate(zip(s.mols, pct)):
            m.mixture = ("abs", p / 100.0 * M) if i == k else ("pct", p)
    for m in s.mols:
        m.mfmt = rng.randrange(6)
    return [p / 100.0 for p in pct], M


def run_generator(S, rng):
    return type(S).generator.fget(S, rng)


def run_case(case):
    import gbigsmiles

    rng = random.Random(case["seed"])
    cnt = collections.Counter()
    viol, nt = [], set()
    sample = None
    if case["kind"] == "exact":
        return run_exact(case, rng)
    if case["kind"] == "open":
        return run_open(case, rng)
    s = make_system(rng)
    if case["kind"] == "nongen" and (case["seed"] // 6) % 2 == 1:
        # fully specified masses, but one COMPONENT is not generable (object without distribution / negative weight);
        # in half of these the last component carries no specifier and the caller supplies the system mass
        from ..ast import StochAst

        fr, M = assign(rng, s, 5)
        polys = [m for m in s.mols if any(isinstance(e, StochAst) for e in m.elements)]
        if not polys:
            return {"viol": [], "cnt": {"nongen_no_polymer": 1}, "nt": []}
        victim = polys[-1] if rng.random() < 0.6 else rng.choice(polys)
        st = [e for e in victim.elements if isinstance(e, StochAst)][0]
        if rng.random() < 0.6:
            st.dist = None
        else:
            st.all_descs()[0][0].weight = -1.0
        kw = {}
        if rng.random() < 0.5 and len(s.mols) >= 1:
            # move the victim to the end, drop its specifier, give the system mass to the constructor
            s.mols.remove(victim)
            s.mols.append(victim)
            victim.mixture = None
            kw = {"system_molweight": float(M)}
            if len(s.mols) > 1:
                rest = 90.0
                for m in s.mols[:-1]:
                    m.mixture = ("pct", round(rest / (len(s.mols) - 1), 4))
        text = s.to_text()
        try:
            S = gbigsmiles.System(text, **kw)
        except Exception:
            return {"viol": [], "cnt": {"nongen_rejected_at_parse": 1}, "nt": []}
        cnt["nongenerable_probed"] += 1
        cnt["nongenerable_component_probed"] += 1
        label = f"System({text!r}, {kw})"
        if S.generable:
            viol.append({"cls": "c13.system-with-nongenerable-component-reports-generable", "msg": f"{label}: a component is not generable but the system reports generable = True", "text": text})
        try:
            first = next(iter(run_generator(S, W.spy(1))))
            viol.append({"cls": "c13.nongenerable-system-iterates", "msg": f"{label} has a non-generable component but its generator yielded {first.smiles}", "text": text})
        except StopIteration:
            pass
        except Exception:
            cnt["nongenerable_generator_refused"] += 1
        for k in range(4):
            try:
                with time_limit(60):
                    g = S.generate(rng=W.spy(2 + k))
                viol.append({"cls": "c13.nongenerable-system-generates", "msg": f"{label} has a non-generable component but System.generate() returned {g.smiles}", "text": text})
                break
            except StepTimeout:
                cnt["watchdog"] += 1
            except Exception:
                cnt["nongenerable_generate_refused"] += 1
        cnt["evaluations"] = 1
        return {"viol": viol, "cnt": dict(cnt), "nt": [], "sample": {"system_with_nongenerable_component": text, "constructor_kwargs": kw}}
    if case["kind"] == "nongen":
        # under-determined: drop specifiers so that the system is not generable
        fr, M = assign(rng, s, 5)
        if len(s.mols) == 1:
            s.mols[0].mixture = ("pct", 100.0)
        else:
            for m in s.mols:
                m.mixture = ("pct", round(100.0 / len(s.mols), 4))
            s.mols[-1].mixture = ("pct", round(100.0 - sum(m.mixture[1] for m in s.mols[:-1]), 4))
        text = s.to_text()
        try:
            S = gbigsmiles.System(text)
        except Exception:
            return {"viol": [], "cnt": {"nongen_rejected_at_parse": 1}, "nt": []}
        if S.generable:
            return {"viol": [], "cnt": {"nongen_was_generable": 1}, "nt": []}
        cnt["nongenerable_probed"] += 1
        try:
            it = run_generator(S, W.spy(1))
            first = next(iter(it))
            viol.append({"cls": "c13.nongenerable-system-iterates", "msg": f"System({text!r}) is not generable but its generator yielded {first.smiles}", "text": text})
        except StopIteration:
            viol.append({"cls": "c13.nongenerable-system-iterates", "msg": f"System({text!r}) is not generable but its generator ran (empty)", "text": text})
        except Exception:
            cnt["nongenerable_generator_refused"] += 1
        try:
            with time_limit(60):
                g = S.generate(rng=W.spy(2))
            viol.append({"cls": "c13.nongenerable-system-generates", "msg": f"System({text!r}) is not generable (generable = False) but System.generate() returned {g.smiles}", "text": text})
        except StepTimeout:
            cnt["watchdog"] += 1
        except Exception:
            cnt["nongenerable_generate_refused"] += 1
        cnt["evaluations"] = 1
        return {"viol": viol, "cnt": dict(cnt), "nt": [], "sample": {"non_generable_system": text}}

    scale = rng.choice([0.5, 2, 5, 12, 30, 60])
    fr, M = assign(rng, s, scale)
    text = s.to_text()
    try:
        S = gbigsmiles.System(text)
    except Exception as exc:
        return {"viol": [{"cls": "c13.valid-system-rejected", "msg": f"System({text!r}) raised {type(exc).__name__}: {exc}", "text": text}], "cnt": {"systems_rejected": 1}, "nt": []}
    if not S.generable:
        return {"viol": [{"cls": "c13.determined-system-not-generable", "msg": f"System({text!r}) is fully specified but not generable", "text": text}], "cnt": {}, "nt": []}
    lib_mols = molecules_of(S)
    max_res = max([t.res_id for m in lib_mols for t in m.residues] or [0])
    if max_res > 25:
        return {"viol": [], "cnt": {"skipped_residue_ids_over_25": 1}, "nt": []}
    cms = [model.compile_molecule(m) for m in s.mols]
    clos = [model.closable(cm)[0] for cm in cms]
    sysM = S.system_mass
    if abs(sysM - M) > 1e-9 * max(abs(M), 1.0):
        # the stop rule below is relative to the system mass that was WRITTEN
        return {"viol": [{"cls": "c13.system-mass-misread", "msg": f"System({text!r}) declares the system mass {M!r}, the parsed system holds {sysM!r}", "text": text}], "cnt": {}, "nt": []}
    trace.reset()
    W._budget["left"] = None
    seq = []
    status = "ok"
    try:
        with time_limit(600):
            for g in run_generator(S, W.spy(case["seed"])):
                seq.append(g)
                if len(seq) > 5000:
                    status = "too-long"
                    break
    except StepTimeout:
        status = "watchdog"
    except Exception as exc:
        status = "exc"
        err = exc
    draw_failed = any(e["k"] == "draw_exc" for e in trace.events)
    for v in trace.violations:
        if v["cls"].startswith("c13."):
            viol.append(dict(v, text=text))
    if status == "watchdog" or draw_failed:
        cnt["skipped_watchdog_or_draw"] += 1
        return {"viol": viol, "cnt": dict(cnt), "nt": []}
    if status == "exc":
        if all(clos):
            viol.append({"cls": "c13.generator-raises", "msg": f"iteration of well-posed System({text!r}) raised {type(err).__name__}: {err}"[:400], "text": text})
        else:
            cnt["skipped_not_well_posed"] += 1
        return {"viol": viol, "cnt": dict(cnt), "nt": []}
    cnt["systems_iterated"] += 1
    cnt["molecules_yielded"] += len(seq)
    # stop rule on the library's own partial sums
    acc, stop_at = 0.0, None
    from rdkit.Chem import Descriptors as _D

    for k, g in enumerate(seq):
        w_indep = _D.HeavyAtomMolWt(g.mol)  # the heavy-atom mass of the molecule that was yielded, computed here
        if abs(w_indep - g.weight) > 1e-6 * max(1.0, w_indep):
            viol.append({"cls": "c13.weight-is-not-the-heavy-atom-mass", "msg": f"molecule {k} ({g.smiles}) reports weight {g.weight!r}, its heavy-atom mass is {w_indep!r}", "text": text})
            break
        acc += g.weight
        if acc >= sysM and stop_at is None:
            stop_at = k
    if status == "too-long":
        viol.append({"cls": "c13.does-not-stop", "msg": f"more than 5000 molecules for system mass {sysM}", "text": text})
    elif stop_at is None:
        viol.append({"cls": "c13.stops-early", "msg": f"iteration ended after {len(seq)} molecules with accumulated mass {acc!r} < system mass {sysM!r}", "text": text})
    elif stop_at != len(seq) - 1:
        viol.append({"cls": "c13.stops-late", "msg": f"accumulated mass reached the system mass {sysM!r} at molecule {stop_at + 1} but {len(seq)} molecules were yielded", "text": text})
    # membership + completeness
    member_counts = collections.Counter()
    for k, g in enumerate(seq[:400]):
        if not g.fully_generated:
            viol.append({"cls": "c13.partial-molecule-yielded", "msg": f"molecule {k} has {len(g.bond_descriptors)} open descriptors", "text": text})
            continue
        owners = []
        why = []
        for ci, (lm, cm) in enumerate(zip(lib_mols, cms)):
            try:
                vs, facts = genaudit.audit(lm, cm, g, None, closable=clos[ci], scope_first_may_be_end=True)
            except Exception as exc:
                vs = [{"cls": "x", "msg": str(exc)}]
            if not vs:
                owners.append(ci)
            else:
                why.append((ci, vs[0]["msg"][:120]))
        cnt["molecules_audited"] += 1
        if len(owners) != 1:
            viol.append({"cls": "c13.not-a-member-of-exactly-one-component", "msg": f"molecule {k} ({g.smiles}) is an instance of components {owners}; audits: {why[:3]}", "text": text})
        else:
            member_counts[owners[0]] += 1
    # two iterations of the SAME system alive at once, advanced alternately: each must obey the stop rule on its own
    if len(seq) <= 400:
        try:
            with time_limit(600):
                its = [iter(run_generator(S, W.spy(case["seed"] + 7))), iter(run_generator(S, W.spy(case["seed"] + 8)))]
                seqs, alive = [[], []], [True, True]
                while any(alive):
                    for k in (0, 1):
                        if alive[k]:
                            try:
                                seqs[k].append(next(its[k]).weight)
                            except StopIteration:
                                alive[k] = False
                            if len(seqs[k]) > 5000:
                                alive[k] = False
            cnt["interleaved_iterations"] += 2
            for k in (0, 1):
                acc, stop_at = 0.0, None
                for j, w in enumerate(seqs[k]):
                    acc += w
                    if acc >= sysM and stop_at is None:
                        stop_at = j
                if stop_at is None:
                    viol.append({"cls": "c13.stops-early.interleaved-iterations", "msg": f"two iterations of one system advanced alternately: iteration {k} ended after {len(seqs[k])} molecules with accumulated mass {acc!r} < system mass {sysM!r}", "text": text})
                elif stop_at != len(seqs[k]) - 1:
                    viol.append({"cls": "c13.stops-late.interleaved-iterations", "msg": f"two iterations of one system advanced alternately: iteration {k} reached the system mass at molecule {stop_at + 1} but yielded {len(seqs[k])}", "text": text})
        except StepTimeout:
            cnt["watchdog"] += 1
        except Exception as exc:
            if all(clos) and not any(e["k"] == "draw_exc" for e in trace.events):
                viol.append({"cls": "c13.generator-raises", "msg": f"interleaved iteration of well-posed System({text!r}) raised {type(exc).__name__}: {exc}"[:400], "text": text})
    # single generation
    try:
        g1 = S.generate(rng=W.spy(case["seed"] + 1))
        cnt["single_generations"] += 1
        if not g1.fully_generated:
            viol.append({"cls": "c13.single-generation-partial", "msg": "System.generate returned a partial molecule", "text": text})
    except Exception as exc:
        if all(clos) and not any(e["k"] == "draw_exc" for e in trace.events):
            viol.append({"cls": "c13.single-generation-raises", "msg": f"System.generate raised {type(exc).__name__}: {exc}"[:300], "text": text})
    if len(s.mols) >= 2 and len(seq) >= 5:
        nt.add(text)
    cnt.update(trace.take_counters())
    cnt["evaluations"] = len(seq) + 1
    sample = {"system": text, "system_mass": sysM, "molecules_yielded": len(seq), "accumulated_mass": acc, "members_per_component": dict(member_counts)}
    return {"viol": viol[:12], "nt": sorted(nt), "cnt": dict(cnt), "sample": sample}


def run_exact(case, rng):
    """fixed-mass components and a system mass that is EXACTLY the left-to-right float sum of k molecule masses:
    iteration must stop with the molecule that brings the accumulated mass to the system mass (>=), not one later"""
    import gbigsmiles
    from rdkit import Chem
    from rdkit.Chem import Descriptors

    cnt = collections.Counter()
    viol = []
    sample = None
    for rep in range(6):
        n = rng.choice([1, 1, 2, 3])
        smis = rng.sample(["CC", "CCO", "COC", "CCC", "C1CCOC1", "CC(=O)C", "CCCCCC", "CS"], n)
        masses = [Descriptors.HeavyAtomMolWt(Chem.MolFromSmiles(x)) for x in smis]
        k = rng.randint(1, 12)
        if n == 1:
            total = 0.0
            for _ in range(k):
                total += masses[0]
            text = smis[0]
            S = gbigsmiles.System(text, total) if rng.random() < 0.5 else gbigsmiles.System(f"{text}.|{total!r}|")
            expect = k
        else:
            # equal-mass isomers or a total that every sequence of k molecules reaches exactly is rare; use equal masses
            smis = rng.sample(["CCO", "COC"], 2) if n >= 2 else smis
            masses = [Descriptors.HeavyAtomMolWt(Chem.MolFromSmiles(x)) for x in smis]
            total = 0.0
            for _ in range(k):
                total += masses[0]
            f = rng.choice([50.0, 25.0, 80.0])
            text = f"{smis[0]}.|{f}%|{smis[1]}.|{(100 - f) / 100 * total!r}|"
            S = gbigsmiles.System(text)
            expect = None
        if not S.generable:
            cnt["exact_not_generable"] += 1
            continue
        sysM = S.system_mass
        seq = list(run_generator(S, W.spy(case["seed"] + rep)))
        acc, stop_at = 0.0, None
        for i, g in enumerate(seq):
            acc += g.weight
            if acc >= sysM and stop_at is None:
                stop_at = i
        cnt["exact_systems"] += 1
        cnt["systems_iterated"] += 1
        cnt["molecules_yielded"] += len(seq)
        hit = any(abs(sum(x.weight for x in seq[: j + 1]) - sysM) == 0.0 for j in range(len(seq)))
        cnt["exact_boundary_hit"] += int(hit)
        if stop_at is None:
            viol.append({"cls": "c13.stops-early", "msg": f"System({text!r}) ended after {len(seq)} molecules with accumulated mass {acc!r} < system mass {sysM!r}", "text": text})
        elif stop_at != len(seq) - 1:
            viol.append({"cls": "c13.stops-late", "msg": f"System({text!r}): the accumulated mass reached the system mass {sysM!r} exactly at molecule {stop_at + 1}, but {len(seq)} molecules were yielded", "text": text})
        if sample is None:
            sample = {"exact_system": text, "system_mass": sysM, "molecules": len(seq), "boundary_hit_exactly": hit}
    cnt["evaluations"] = cnt["molecules_yielded"]
    return {"viol": viol, "cnt": dict(cnt), "nt": [], "sample": sample}


def run_open(case, rng):
    """a component that is generable but can never be completed (a stochastic object whose right terminal is left open because the suffix is
    missing, or a lone token that carries a bond descriptor), alone or next to ordinary components: whatever System.generate returns and whatever
    the generator yields must be fully generated -- the open component has to be refused, not handed out"""
    import gbigsmiles
    from ..ast import Desc, StochAst, TokenAst

    cnt = collections.Counter()
    viol = []
    n = rng.choice([1, 1, 2, 3])
    mols = []
    for _ in range(n - 1):
        mols.append(MolAst([gen.plain_token(rng.choice(["CCO", "C1CCOC1", "CC(=O)C", "CCCCCC", "CO"]))], arch="small") if rng.random() < 0.5 else gen.make_molecule(rng, rng.choice(["endinit", "stepgrowth", "homo"]), small=True, families=["gauss", "uniform"], mean_units=2))
    mode = rng.choice(["no-suffix", "no-suffix", "lone-token"])
    if mode == "no-suffix":
        for _try in range(30):
            m = gen.make_molecule(rng, rng.choice(["homo", "random", "block", "graft", "hyper", "comb"]), small=True, families=["gauss", "uniform"], mean_units=2)
            if len(m.elements) >= 3 and isinstance(m.elements[-1], TokenAst) and isinstance(m.elements[-2], StochAst) and m.elements[-2].right.sym:
                m.elements = m.elements[:-1]
                break
        else:
            return {"viol": [], "cnt": {"open_no_subject": 1}, "nt": []}
    else:
        t = gen.build_token(rng, rng.choice(["CC", "CCO", "CCC", "Cc1ccccc1"]), [Desc(rng.choice("$<>"), rng.choice([None, 1]))], "ends")
        m = MolAst([t], arch="lone-token")
    mols.insert(rng.randrange(len(mols) + 1), m)
    s = SysAst(mols)
    fr, M = assign(rng, s, rng.choice([3, 8]))
    for mm, f in zip(s.mols, fr):
        mm.mixture = ("abs", max(f * M, 1.0))
    text = s.to_text()
    try:
        S = gbigsmiles.System(text)
    except Exception:
        return {"viol": [], "cnt": {"open_rejected_at_parse": 1}, "nt": []}
    cnt["open_component_systems"] += 1
    cnt["open_mode_" + mode] += 1
    label = f"System({text!r})"
    if not S.generable:
        cnt["open_reports_not_generable"] += 1
    for k in range(8):
        trace.reset()
        try:
            with time_limit(60):
                g = S.generate(rng=W.spy(case["seed"] + k))
        except StepTimeout:
            cnt["watchdog"] += 1
            continue
        except Exception:
            cnt["open_generate_refused"] += 1
            continue
        cnt["open_generate_returned"] += 1
        if not g.fully_generated:
            viol.append({"cls": "c13.single-generation-partial", "msg": f"{label}: System.generate returned {g.smiles} with {len(g.bond_descriptors)} open descriptors (component {m.to_text()!r} can never be completed)", "text": text})
            break
    try:
        with time_limit(120):
            for j, g in enumerate(run_generator(S, W.spy(case["seed"] + 100))):
                cnt["open_molecules_yielded"] += 1
                if not g.fully_generated:
                    viol.append({"cls": "c13.partial-molecule-yielded", "msg": f"{label}: the generator yielded {g.smiles} with {len(g.bond_descriptors)} open descriptors", "text": text})
                    break
                if j > 400:
                    break
    except StepTimeout:
        cnt["watchdog"] += 1
    except Exception:
        cnt["open_generator_refused"] += 1
    cnt["evaluations"] = cnt["open_generate_returned"] + cnt["open_generate_refused"] + cnt["open_molecules_yielded"]
    return {"viol": viol, "cnt": dict(cnt), "nt": [], "sample": {"system_with_open_component": text, "open_component": m.to_text(), "mode": mode}}
