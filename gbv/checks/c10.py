"""C10 -- generation is a pure, reproducible function of string and supplied generator."""
import collections
import copy
import json
import os
import random
import subprocess
import sys

import numpy as np

from .. import env
from .. import workloads as W
from ..monitors import steps, trace
from ..tools.c10_baseline import digest, observe_system
from ..util import StepTimeout, time_limit

ID = "C10"
LEVEL = "exploration"
CASE_TIMEOUT = 1800
RULE = (
    "one case = one history (1-2 systems built over the pool's strings are observed as well: printed forms, generable, System.generate and the first molecules of the ensemble under a seeded generator, all against a fresh process): a random sequence of 40-160 operations over a pool of 3-12 parsed objects (all archetypes; two pool entries share one string; most entries are accompanied by a twin whose fragments are the same molecules written in another atom order; the fresh-process baseline is computed twice, working through the pool in opposite orders, and must agree with itself): "
    "parse again, generate(rng=seeded), generate() with the library's global generator (re-seeded / advanced arbitrarily), str, generate_string(False), "
    "elements / gen_mirror (and mutation of what they return), gen_reaction_graph, gen_stochastic_atom_graph + AtomGraph.generate, get_ensemble_prob on "
    "short chains, force-field typing with default and explicit files, generation that fails midway (incompatible prefix) followed by a retry, deepcopy. "
    "Every seeded generation is compared (canonical SMILES, mass, digest of the choice/variate log) with a baseline computed in a FRESH process on a fresh "
    "parse; printed forms and generability are compared with the baseline; a deep, identity-aware fingerprint of every pool object (all attributes "
    "reachable, private ones included) is taken before and after every operation. Non-trivial: an object generated >= 2 times with the same seed with "
    "other operations in between; distinct by history."
)
ASSUMPTIONS = ["the baseline process runs without contracts; equality therefore also shows that the harness-side monitors do not perturb the library"]
FLOORS = {"quick": {"histories": 24, "seeded_generations_compared": 400, "fingerprints_compared": 3000, "distinct_nontrivial": 14, "respelled_twins_in_pool": 20, "fresh_process_order_pairs": 100}, "thorough": {"histories": 500}}


def plan(tier, seed):
    n = 32 if tier == "quick" else 640
    return [{"seed": seed * 1001303 + i, "len": 60 if tier == "quick" else 120} for i in range(n)]


class PoisonRNG(np.random.Generator):
    """stands in for the library's module-level generator: counts every use"""

    def __init__(self):
        super().__init__(np.random.PCG64(12345))
        self.uses = 0

    def __deepcopy__(self, memo):
        return self

    def _hit(self):
        self.uses += 1


for _name in ("choice", "uniform", "random", "normal", "standard_normal", "poisson", "integers", "gamma", "exponential", "binomial", "shuffle", "permutation"):

    def _mk(name):
        base = getattr(np.random.Generator, name)

        def f(self, *a, **k):
            self.uses += 1
            return base(self, *a, **k)

        return f

    setattr(PoisonRNG, _name, _mk(_name))

POISON = None


def install_poison():
    """replace the library's global generator everywhere it is bound: module globals and function defaults"""
    global POISON
    if POISON is not None:
        return POISON
    import importlib
    import inspect
    import pkgutil

    import gbigsmiles
    import gbigsmiles.core as core

    orig = core._GLOBAL_RNG
    POISON = PoisonRNG()
    for m in pkgutil.iter_modules(gbigsmiles.__path__):
        try:
            mod = importlib.import_module("gbigsmiles." + m.name)
        except Exception:
            continue
        if getattr(mod, "_GLOBAL_RNG", None) is orig:
            mod._GLOBAL_RNG = POISON
        for _, obj in inspect.getmembers(mod):
            funcs = []
            if inspect.isfunction(obj):
                funcs.append(obj)
            elif inspect.isclass(obj):
                for _, f in inspect.getmembers(obj):
                    if isinstance(f, property) and f.fget is not None:
                        f = f.fget
                    if inspect.isfunction(f):
                        funcs.append(f)
            for f in funcs:
                seen = set()
                while f is not None and id(f) not in seen:
                    seen.add(id(f))
                    d = getattr(f, "__defaults__", None)
                    if d and any(x is orig for x in d):
                        f.__defaults__ = tuple(POISON if x is orig else x for x in d)
                    f = getattr(f, "__wrapped__", None)
    if getattr(gbigsmiles, "_GLOBAL_RNG", None) is orig:
        gbigsmiles._GLOBAL_RNG = POISON
    return POISON


def setup_worker():
    W.install()
    install_poison()


# ------------------------------------------------------------------ deep fingerprint ----------
OPAQUE = ("scipy", "rdkit", "networkx")


def deep_fp(obj):
    """identity-aware structural fingerprint of everything reachable from obj"""
    seen = {}
    out = []

    def walk(x, depth=0):
        if depth > 40:
            return "<deep>"
        if x is None or isinstance(x, (bool, int, str)):
            return x
        if isinstance(x, float):
            return repr(x)
        if isinstance(x, (np.floating, np.integer)):
            return repr(x.item())
        if isinstance(x, np.ndarray):
            return ("nd", tuple(repr(float(v)) for v in x.ravel()))
        if any((c.__module__ or "").startswith(OPAQUE) for c in type(x).__mro__):
            return ("opaque", type(x).__name__)  # third-party objects (scipy caches internals lazily)
        if isinstance(x, (list, tuple)):
            return (type(x).__name__, tuple(walk(v, depth + 1) for v in x))
        if isinstance(x, dict):
            return ("dict", tuple((repr(k), walk(v, depth + 1)) for k, v in sorted(x.items(), key=lambda kv: repr(kv[0]))))
        if isinstance(x, np.random.Generator):
            return ("rng",)
        i = id(x)
        if i in seen:
            return ("ref", seen[i])
        seen[i] = len(seen)
        d = getattr(x, "__dict__", None)
        if d is None:
            return ("obj", type(x).__name__)
        return ("obj", type(x).__name__, seen[i], tuple((k, walk(v, depth + 1)) for k, v in sorted(d.items()) if not k.startswith("_gbv")))

    return walk(obj)


def baseline(items):
    os.makedirs(env.WORK, exist_ok=True)
    tag = f"c10-{os.getpid()}-{random.getrandbits(32)}"
    fin, fout = os.path.join(env.WORK, tag + ".in.json"), os.path.join(env.WORK, tag + ".out.json")
    json.dump({"items": items}, open(fin, "w"))
    e = dict(os.environ)
    e["PYTHONPATH"] = env.VERIF + os.pathsep + env.REPO_SRC
    e["PYTHONHASHSEED"] = "0"
    try:
        subprocess.run([sys.executable, "-m", "gbv.tools.c10_baseline", fin, fout], check=True, env=e, cwd=env.VERIF, timeout=900, capture_output=True)
        return json.load(open(fout))
    finally:
        for f in (fin, fout):
            try:
                os.remove(f)
            except OSError:
                pass


OPS = ["generate", "generate", "generate", "generate", "generate", "sys_observe", "sys_observe", "generate_global", "str", "noext", "elements_mutate", "mirror_mutate", "mirror_generate", "mirror_generate", "reaction_graph", "atom_graph", "ensemble_prob", "forcefield", "fail_then_retry", "fault_then_retry", "deepcopy", "reparse", "perturb_global", "generable"]


def run_case(case):
    import gbigsmiles
    import gbigsmiles.core as core

    rng = random.Random(case["seed"])
    cnt = collections.Counter()
    viol = []
    # pool
    K = rng.randint(3, 7)
    texts = []
    for k in range(K - 1):
        for _try in range(10):
            try:
                kw = dict(small=rng.random() < 0.7, typable=rng.random() < 0.3, families=["gauss", "uniform", "poisson", "schulz_zimm"], mean_units=rng.choice([1.5, 2.5, 4]))
                if k == 1 and rng.random() < 0.7:
                    kw["arch"] = "deadend"  # a valid string whose generation dead-ends for some streams: a failed generation must leave no trace either
                subj = W.Subject(case["seed"] * 977 + k * 13 + _try, **kw)
                gbigsmiles.Molecule(subj.text)
                texts.append(subj.text)
                # the same description with every fragment that has one written in its other spelling (same molecules, other atom order):
                # a cache keyed by the chemistry instead of the text makes the two interfere
                if rng.random() < 0.45:
                    tw = W.Subject(case["seed"] * 977 + k * 13 + _try, respell=True, **kw)
                    if tw.text not in texts:
                        gbigsmiles.Molecule(tw.text)
                        texts.append(tw.text)
                        cnt["respelled_twins_in_pool"] += 1
                # ... and with the VALUES of its extensions permuted (same plain text, same sums): a cache keyed by the text makes these interfere
                if rng.random() < 0.4:
                    from .c08 import extension_variants

                    for v in extension_variants(subj, rng):
                        if v.text not in texts:
                            gbigsmiles.Molecule(v.text)
                            texts.append(v.text)
                            cnt["extension_variants_in_pool"] += 1
                break
            except Exception:
                continue
    if not texts:
        return {"viol": [], "cnt": {"pool_failed": 1}, "nt": []}
    seeds = [rng.randrange(1, 1000) for _ in range(3)]
    # baseline first: every (text, seed) in a fresh process; strings whose generation is slow or hits the watchdog
    # (runaway Schulz-Zimm draws, C11 finding) are dropped from the pool
    try:
        items = [[t, s] for t in texts for s in seeds]
        base = baseline(items)
        # a second fresh process works through the same items in the opposite order: "whatever was parsed or generated before"
        items_rev = [[t, seeds[0]] for t in texts[::-1]]
        base_rev = baseline(items_rev)
    except Exception as exc:
        return {"harness_error": f"baseline process failed: {exc}"}
    for t, s0 in items_rev:
        a, b = base[f"{t}|{s0}"], base_rev[f"{t}|{s0}"]
        cnt["fresh_process_order_pairs"] += 1
        if "watchdog" in (a["status"], b["status"]):
            continue
        if (a["status"], a.get("smiles"), a.get("exc"), a["str"], a["noext"], a["generable"]) != (b["status"], b.get("smiles"), b.get("exc"), b["str"], b["noext"], b["generable"]) or abs(a.get("weight", 0.0) - b.get("weight", 0.0)) > 1e-9:
            viol.append({"cls": "c10.generation-depends-on-what-was-generated-before", "msg": f"{t!r} with seed {s0}: {a.get('smiles', a.get('exc'))} ({a.get('weight')}) in a fresh process that worked through the pool in one order, {b.get('smiles', b.get('exc'))} ({b.get('weight')}) in a fresh process that used the opposite order", "texts": texts})
    texts = [t for t in texts if all(base[f"{t}|{s}"]["status"] != "watchdog" and base[f"{t}|{s}"]["seconds"] < 3.0 for s in seeds)]
    if not texts:
        return {"viol": [], "cnt": {"pool_failed": 1}, "nt": []}
    # systems over the pool's strings (small system masses: a handful of molecules per ensemble)
    sys_texts = []
    for _ in range(rng.choice([1, 1, 2])):
        comps = rng.sample(texts, min(len(texts), rng.choice([1, 2, 3])))
        if rng.random() < 0.5:
            comps.insert(rng.randrange(len(comps) + 1), rng.choice(["CCO", "C1CCOC1", "CC(=O)C"]))
        sys_texts.append("".join(t + f".|{rng.choice([300, 800, 1500])}|" for t in comps))
    try:
        base_sys = baseline([[t, s, "system"] for t in sys_texts for s in seeds[:2]])
    except Exception as exc:
        return {"harness_error": f"baseline process failed: {exc}"}
    sys_texts = [t for t in sys_texts if all(base_sys[f"{t}|{s}"]["single"][0] != "watchdog" and base_sys[f"{t}|{s}"]["ensemble"][0] != "watchdog" for s in seeds[:2])]
    texts.append(rng.choice(texts))  # two instances parsed from the same string
    # the history is fixed up front, so the baseline knows every (text, seed) it needs
    history = []
    for _ in range(case["len"]):
        history.append((rng.choice(OPS), rng.randrange(len(texts)), rng.choice(seeds)))
    pool = [gbigsmiles.Molecule(t) for t in texts]
    spool = [gbigsmiles.System(t) for t in sys_texts]
    n_mol = len(pool)
    pool = pool + spool  # fingerprints of the systems are compared after every operation as well
    fps = [deep_fp(o) for o in pool]
    gen_count = collections.Counter()
    nontrivial = False
    other_since = collections.defaultdict(int)

    def bad(cls, msg, step):
        viol.append({"cls": cls, "msg": msg, "step": step, "history": [list(h) for h in history[: step + 1]][-12:], "texts": texts})

    def compare_generation(obj, i, s, step, what="generate"):
        trace.reset()
        POISON.uses = 0
        try:
            with time_limit(15):
                g = obj.generate(rng=W.spy(s))
            rec = {"status": "ok", "smiles": g.smiles, "weight": g.weight, "log": digest(trace.events)}
        except StepTimeout:
            cnt["watchdog"] += 1
            return
        except Exception as exc:
            rec = {"status": "exc", "exc": type(exc).__name__, "log": digest(trace.events)}
        if POISON.uses:
            bad("c10.global-generator-used-although-one-was-supplied", f"{what} of object {i} with an explicit generator (seed {s}) drew {POISON.uses} times from the library's module-level generator", step)
        cnt["global_generator_watch"] += 1
        b = base[f"{texts[i]}|{s}"]
        cnt["seeded_generations_compared"] += 1
        if b["status"] == "watchdog":
            return
        if rec["status"] != b["status"]:
            bad("c10.generation-differs-from-fresh-process", f"{what} of object {i} with seed {s}: {rec} here, {b['status']} {b.get('smiles', b.get('exc'))} in a fresh process", step)
        elif rec["status"] == "ok" and (rec["smiles"] != b["smiles"] or abs(rec["weight"] - b["weight"]) > 1e-9):
            bad("c10.generation-differs-from-fresh-process", f"{what} of object {i} with seed {s}: {rec['smiles']} ({rec['weight']}) here, {b['smiles']} ({b['weight']}) in a fresh process", step)
        elif rec["log"] != b["log"]:
            cnt["choice_log_differs_only"] += 1

    def near_seq(a, b):
        return len(a) == len(b) and all(x[0] == y[0] and abs(x[1] - y[1]) <= 1e-9 for x, y in zip(a, b))

    for step, (op, i, s) in enumerate(history):
        obj = pool[i]
        if op.startswith("sys_") and not spool:
            op = "str"
        cnt["operations"] += 1
        cnt["op_" + op] += 1
        try:
            if op.startswith("sys_"):
                j = i % len(spool)
                S, st, s2 = spool[j], sys_texts[j], seeds[seeds.index(s) % 2]
                b = base_sys[f"{st}|{s2}"]
                POISON.uses = 0
                with time_limit(90):
                    rec = observe_system(S, s2)
                cnt["system_observations_compared"] += 1
                if POISON.uses:
                    bad("c10.global-generator-used-although-one-was-supplied", f"system {j}: generation with an explicit generator (seed {s2}) drew {POISON.uses} times from the library's module-level generator", step)
                if (rec["str"], rec["noext"], rec["generable"]) != (b["str"], b["noext"], b["generable"]):
                    bad("c10.printed-form-changed", f"system {j}: printed forms / generable {rec['str']!r} {rec['generable']} differ from a fresh process {b['str']!r} {b['generable']}", step)
                if "watchdog" not in (rec["single"][0], b["single"][0]) and (rec["single"][:2] != b["single"][:2] or (rec["single"][0] == "ok" and abs(rec["single"][2] - b["single"][2]) > 1e-9)):
                    bad("c10.generation-differs-from-fresh-process", f"System.generate of system {j} ({st[:80]}) with seed {s2}: {rec['single']} here, {b['single']} in a fresh process", step)
                if "watchdog" not in (rec["ensemble"][0], b["ensemble"][0]) and (rec["ensemble"][0] != b["ensemble"][0] or not near_seq(rec["ensemble"][-1], b["ensemble"][-1])):
                    bad("c10.generation-differs-from-fresh-process", f"ensemble of system {j} ({st[:80]}) with seed {s2}: {[x[0] for x in rec['ensemble'][-1]][:6]} here, {[x[0] for x in b['ensemble'][-1]][:6]} in a fresh process", step)
            elif op == "generate":
                if gen_count[(i, s)] >= 1 and other_since[(i, s)] >= 1:
                    nontrivial = True
                compare_generation(obj, i, s, step)
                gen_count[(i, s)] += 1
                other_since[(i, s)] = 0
            elif op == "generate_global":
                with time_limit(15):
                    try:
                        obj.generate()
                    except StepTimeout:
                        raise
                    except Exception:
                        pass
            elif op == "perturb_global":
                POISON.random(rng.randint(1, 50))
                try:
                    POISON.bit_generator.state = np.random.PCG64(rng.randrange(1 << 30)).state
                except Exception:
                    pass
            elif op == "str":
                if str(obj) != base[f"{texts[i]}|{seeds[0]}"]["str"]:
                    bad("c10.printed-form-changed", f"str(object {i}) = {str(obj)!r}, fresh process prints {base[f'{texts[i]}|{seeds[0]}']['str']!r}", step)
            elif op == "noext":
                if obj.generate_string(False) != base[f"{texts[i]}|{seeds[0]}"]["noext"]:
                    bad("c10.printed-form-changed", f"generate_string(False) of object {i} changed", step)
            elif op == "generable":
                if bool(obj.generable) != base[f"{texts[i]}|{seeds[0]}"]["generable"]:
                    bad("c10.generable-changed", f"generable of object {i} is now {obj.generable}", step)
            elif op == "elements_mutate":
                els = obj.elements
                for e in els:
                    for bd in getattr(e, "bond_descriptors", []):
                        bd.weight = 99.0
                        bd.descriptor = "$"
                    if hasattr(e, "repeat_tokens") and e.repeat_tokens:
                        e.repeat_tokens.pop()
            elif op == "mirror_mutate":
                m = obj.gen_mirror()
                if m is not None:
                    for e in m._elements:
                        for bd in getattr(e, "bond_descriptors", []):
                            bd.weight = 7.0
                    m._elements = []
            elif op == "mirror_generate":
                # the mirror of an object that has been used: it must generate what a fresh parse of the mirror's text generates
                mir = obj.gen_mirror()
                if mir is not None and getattr(mir, "generable", False):
                    mt = str(mir)
                    try:
                        fresh = gbigsmiles.Molecule(mt)
                    except Exception:
                        fresh = None
                    if fresh is not None:
                        outs = []
                        for o_ in (mir, fresh):
                            try:
                                with time_limit(20):
                                    g_ = o_.generate(rng=W.spy(s))
                                outs.append(("ok", g_.smiles, round(g_.weight, 6), bool(g_.fully_generated)))
                            except StepTimeout:
                                outs.append(("watchdog",))
                            except Exception as exc_:
                                outs.append(("exc", type(exc_).__name__))
                        cnt["mirror_generations_compared"] += 1
                        if ("watchdog",) not in outs and outs[0] != outs[1]:
                            bad("c10.mirror-of-used-object-generates-differently", f"mirror of object {i} ({mt[:90]}) with seed {s}: {outs[0]} from the mirror object, {outs[1]} from a fresh parse of the mirror's text", step)
            elif op == "reaction_graph":
                obj.gen_reaction_graph()
            elif op == "atom_graph":
                with time_limit(60):
                    sag = obj.gen_stochastic_atom_graph(expect_schulz_zimm_distribution=False)
                    if "schulz_zimm" in texts[i] and texts[i].count("|") == texts[i].count("schulz_zimm") * 2 + 0:
                        try:
                            sag2 = obj.gen_stochastic_atom_graph()
                            gbigsmiles.AtomGraph(sag2, rng=np.random.default_rng(s)).generate()
                        except Exception:
                            pass
            elif op == "ensemble_prob":
                try:
                    with time_limit(20):
                        with steps.line_budget(1_500_000):
                            gbigsmiles.get_ensemble_prob(base[f"{texts[i]}|{seeds[0]}"].get("smiles", "CC"), obj)
                except (steps.StepBudgetExceeded, StepTimeout):
                    cnt["ensemble_prob_budget"] += 1
                except Exception:
                    cnt["ensemble_prob_raised"] += 1
            elif op == "forcefield":
                b = base[f"{texts[i]}|{seeds[0]}"]
                if b["status"] == "ok" and b.get("fully"):
                    try:
                        with time_limit(60):
                            g = obj.generate(rng=np.random.default_rng(seeds[0]))
                            if rng.random() < 0.5:
                                g.forcefield_types
                            else:
                                from .c20 import files_copy

                                a, bb = files_copy()
                                g.get_forcefield_types(smarts_filename=a, nb_filename=bb)
                    except StepTimeout:
                        raise
                    except Exception:
                        cnt["forcefield_raised"] += 1
            elif op == "fail_then_retry":
                # a prefix that cannot be attached: generation fails midway, a retry must be unaffected
                from gbigsmiles.mol_gen import MolGen

                try:
                    junk = MolGen(gbigsmiles.SmilesToken("[<77]CC[>77]", 0, 0))
                    obj.generate(prefix=junk, rng=np.random.default_rng(3))
                    cnt["misuse_accepted"] += 1
                except Exception:
                    cnt["failed_generations"] += 1
                compare_generation(obj, i, s, step, "retry after a failed generation")
            elif op == "fault_then_retry":
                # fault injection at the generator interface: the k-th variate / choice request raises (as scipy's quantile search sporadically does
                # inside a draw); the generation breaks off mid-way, a retry must be unaffected and the object unchanged
                from ..monitors.rng import FaultRNG

                fr = FaultRNG(s + 5, rng.randint(1, 8), count_choices=rng.random() < 0.5)
                try:
                    with time_limit(15):
                        obj.generate(rng=fr)
                except StepTimeout:
                    raise
                except BaseException:
                    pass
                cnt["injected_faults"] += int(fr.fired)
                compare_generation(obj, i, s, step, "retry after a generation that broke off (injected fault)")
            elif op == "deepcopy":
                c = copy.deepcopy(obj)
                compare_generation(c, i, s, step, "generation from a deep copy")
            elif op == "reparse":
                pool[i] = gbigsmiles.Molecule(texts[i])
                fps[i] = deep_fp(pool[i])
        except StepTimeout:
            cnt["watchdog"] += 1
        except Exception as exc:
            cnt["op_raised_" + op] += 1
        for key in list(other_since):
            other_since[key] += 1
        for key in gen_count:
            other_since[key] = other_since.get(key, 0) + (0 if op == "generate" and key == (i, s) else 1)
        # nothing may have changed any pool object
        for j, o in enumerate(pool):
            cnt["fingerprints_compared"] += 1
            f2 = deep_fp(o)
            if f2 != fps[j]:
                # A change of internal state is a suspicion, not yet a violation (a lazily filled cache is none): the property speaks of printed forms,
                # generability and later outputs.  The changed object is therefore compared with a FRESH parse of its text over a battery of observations.
                diff = first_diff(fps[j], f2)
                fps[j] = f2
                cnt["state_changes_seen"] += 1
                try:
                    with time_limit(120):
                        why = behaves_differently(o, (texts + sys_texts)[j], j >= n_mol, seeds)
                except StepTimeout:
                    why = None
                    cnt["watchdog"] += 1
                if why:
                    bad("c10.parsed-object-mutated", f"operation {op} on object {i} changed the state of pool object {j} ({(texts + sys_texts)[j][:80]}): {diff}; and the object no longer behaves like a fresh parse of its text: {why}", step)
                else:
                    cnt["state_changes_without_observable_effect"] += 1
    cnt["histories"] += 1
    cnt.update({k: v for k, v in trace.take_counters().items() if k.startswith("contract.molgen")})
    cnt["evaluations"] = cnt["operations"]
    seen = collections.Counter()
    out = []
    for v in viol:
        seen[v["cls"]] += 1
        if seen[v["cls"]] <= 3:
            out.append(v)
    return {"viol": out, "nt": [f"history-{case['seed']}"] if nontrivial else [], "cnt": dict(cnt), "sample": {"pool": texts, "history_head": [list(h) for h in history[:10]]}}


def _battery(obj, is_system, seeds):
    """observations the property speaks about, taken from one object"""
    import gbigsmiles

    out = {}

    def safe(name, f):
        try:
            out[name] = f()
        except StepTimeout:
            raise
        except Exception as exc:
            out[name] = f"<{type(exc).__name__}>"

    safe("str", lambda: str(obj))
    safe("noext", lambda: obj.generate_string(False))
    safe("generable", lambda: bool(obj.generable))
    if is_system:
        for s_ in seeds[:2]:
            safe(f"system{s_}", lambda: json.dumps(observe_system(obj, s_, limit=20), sort_keys=True))
        return out
    for s_ in seeds[:2]:
        def gen_(s_=s_):
            g = obj.generate(rng=W.spy(s_))
            return (g.smiles, round(g.weight, 6), bool(g.fully_generated))
        safe(f"generate{s_}", gen_)
    from .c16 import rgraph_fp
    from .c17 import graph_fp

    safe("reaction_graph", lambda: repr(sorted(map(repr, rgraph_fp(obj.gen_reaction_graph())[1].items()))))
    safe("atom_graph", lambda: repr(graph_fp(obj.gen_stochastic_atom_graph(expect_schulz_zimm_distribution=False).graph)))

    def mirror_():
        m = obj.gen_mirror()
        if m is None:
            return None
        t = str(m)
        try:
            g = m.generate(rng=W.spy(seeds[0]))
            return (t, g.smiles, round(g.weight, 6))
        except StepTimeout:
            raise
        except Exception as exc:
            return (t, f"<{type(exc).__name__}>")

    safe("mirror", mirror_)
    return out


def behaves_differently(obj, text, is_system, seeds):
    """-> None, or a description of the first observation in which `obj` differs from a fresh parse of `text`"""
    import gbigsmiles

    fresh = gbigsmiles.System(text) if is_system else gbigsmiles.Molecule(text)
    a, b = _battery(obj, is_system, seeds), _battery(fresh, is_system, seeds)
    for k in a:
        if a[k] != b.get(k):
            return f"{k}: {str(a[k])[:160]} vs fresh {str(b.get(k))[:160]}"
    return None


def first_diff(a, b, path=""):
    if type(a) != type(b):
        return f"{path}: {str(a)[:60]} -> {str(b)[:60]}"
    if isinstance(a, tuple):
        if len(a) != len(b):
            return f"{path}: length {len(a)} -> {len(b)}"
        for k, (x, y) in enumerate(zip(a, b)):
            if x != y:
                name = x[0] if isinstance(x, tuple) and len(x) == 2 and isinstance(x[0], str) else k
                return first_diff(x, y, f"{path}/{name}")
    return f"{path}: {str(a)[:60]} -> {str(b)[:60]}"
