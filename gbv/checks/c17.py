"""C17 -- the stochastic atom graph encodes all atoms, static bonds and admissible links."""
import collections
import random

from .. import gen
from ..monitors import contracts, trace
from ..ref import graphs, model
from ..ref.compat import compat
from ..util import time_limit

ID = "C17"
LEVEL = "exploration"
CASE_TIMEOUT = 900
RULE = (
    "every archetype with Schulz-Zimm distributions (default call) and with any distribution (expect_schulz_zimm_distribution=False) -> "
    "gen_stochastic_atom_graph().graph compared with the graph built independently from the AST: one node per token atom with element, charge, aromatic "
    "flag; static edges = internal bonds in both directions with bond order; every other edge must join the attachment atoms of two compatible descriptors "
    "with their order, inside one object (stochastic / termination, leaving a repeat unit) or between consecutive elements (transition, respecting the "
    "terminal descriptors), and none may leave an end-group atom; required edges (repeat->repeat with the partner's or the listed weight, repeat->end group "
    "as termination, hand-over edges) must be present with their weight. Extra edges the statement does not forbid (termination twins of listed "
    "transitions) are tolerated. Non-trivial: >= 2 elements, >= 1 end group, >= 1 multi-atom token; distinct by input text."
)
ASSUMPTIONS = ["zero-weight partners need no edge", "nodes are matched by written order (tokens in element order, repeat units before end groups)"]
FLOORS = {"quick": {"graphs_checked": 1500, "edges_checked": 40000, "distinct_nontrivial": 150}, "thorough": {"graphs_checked": 30000}}


def plan(tier, seed):
    n = 192 if tier == "quick" else 1600
    return [{"seed": seed * 1000907 + i, "n": 30} for i in range(n)]


def setup_worker():
    contracts.install()


def kind_of(data):
    ks = []
    if data.get("static_weight", 0) != 0:
        ks.append("static")
    if data.get("stochastic_weight", 0) != 0:
        ks.append("stochastic")
    if data.get("termination_weight", 0) != 0:
        ks.append("termination")
    if data.get("transition_weight", 0) != 0:
        ks.append("transition")
    return ks


def graph_fp(G):
    nodes = tuple((n, d.get("atomic_num"), d.get("formal_charge"), bool(d.get("aromatic"))) for n, d in sorted(G.nodes(data=True)))
    edges = tuple(sorted((u, v, tuple(sorted((k, round(float(x), 12)) for k, x in d.items() if isinstance(x, (int, float))))) for u, v, d in G.edges(data=True)))
    return nodes, edges


def first_diff(a, b):
    for x, y in zip(a[0], b[0]):
        if x != y:
            return f"node {x} vs {y}"
    for x, y in zip(a[1], b[1]):
        if x != y:
            return f"edge {x} vs {y}"
    return "sizes"


def check_graph(G, cm, text, viol, cnt):
    ref = graphs.atom_graph(cm)
    nodes = ref["nodes"]
    if G.number_of_nodes() != len(nodes) or sorted(G.nodes()) != list(range(len(nodes))):
        viol.append({"cls": "c17.node-count", "msg": f"{G.number_of_nodes()} nodes for {len(nodes)} token atoms", "text": text})
        return None
    for n, (z, q, ar) in enumerate(nodes):
        d = G.nodes[n]
        if (d.get("atomic_num"), d.get("formal_charge"), bool(d.get("aromatic"))) != (z, q, ar):
            viol.append({"cls": "c17.node-attributes", "msg": f"node {n}: (element, charge, aromatic) = {(d.get('atomic_num'), d.get('formal_charge'), d.get('aromatic'))}, token atom is {(z, q, ar)}", "text": text})
            break
    got_static = {}
    nonstatic = []
    for u, v, data in G.edges(data=True):
        cnt["edges_checked"] += 1
        ks = kind_of(data)
        if "static" in ks:
            got_static[(u, v)] = int(data["bond_type"])
            if len(ks) > 1:
                viol.append({"cls": "c17.edge-static-and-stochastic", "msg": f"edge {u}->{v} is static and {ks}", "text": text})
        else:
            for k in ks:
                nonstatic.append((u, v, k, float(data[f"{k}_weight"]), int(data["bond_type"])))
            if not ks:
                cnt["edges_without_any_weight"] += 1
    if got_static != ref["static"]:
        missing = {k: v for k, v in ref["static"].items() if got_static.get(k) != v}
        extra = {k: v for k, v in got_static.items() if k not in ref["static"]}
        viol.append({"cls": "c17.static-edges-differ", "msg": f"static edges differ from the tokens' internal bonds: missing/wrong {sorted(missing.items())[:4]}, extra {sorted(extra.items())[:4]}", "text": text})
    at_node, node_tok = ref["at_node"], ref["node_tok"]
    els = cm.elements
    for (u, v, k, w, bt) in nonstatic:
        tu, tv = node_tok[u], node_tok[v]
        if tu[1] == "end":
            viol.append({"cls": f"c17.edge-leaves-end-group.{k}", "msg": f"{k} edge {u}->{v} (weight {w}) leaves an atom of end group {cm.tok(tu).text}", "text": text})
            continue
        pairs = [(g, e) for (_, g) in at_node.get(u, []) for (_, e) in at_node.get(v, []) if compat(g.triple, e.triple) and graphs.BT_INT[g.order] == bt]
        if not pairs:
            viol.append({"cls": f"c17.edge-not-between-compatible-descriptors.{k}", "msg": f"{k} edge {u}->{v} (order {bt}) does not join the attachment atoms of two compatible descriptors with that order", "text": text})
            continue
        if k in ("stochastic", "termination"):
            if tu[0] != tv[0]:
                viol.append({"cls": f"c17.edge-crosses-elements.{k}", "msg": f"{k} edge {u}->{v} joins elements {tu[0]} and {tv[0]}", "text": text})
            elif k == "termination" and tv[1] != "end" and not any(g.transitions is not None for g, e in pairs):
                viol.append({"cls": "c17.termination-edge-into-repeat-unit", "msg": f"termination edge {u}->{v} ends in a repeat unit", "text": text})
            elif k == "stochastic" and tv[1] == "end" and not any(g.transitions is not None for g, e in pairs):
                viol.append({"cls": "c17.stochastic-edge-into-end-group", "msg": f"stochastic edge {u}->{v} ends in an end group without a transition list", "text": text})
        else:
            if tv[0] != tu[0] + 1:
                viol.append({"cls": "c17.transition-edge-not-between-consecutive-elements", "msg": f"transition edge {u}->{v} joins elements {tu[0]} and {tv[0]}", "text": text})
            else:
                L, R = els[tu[0]], els[tv[0]]
                ok = True
                if isinstance(L, model.CStoch):
                    ok = ok and L.right.sym != "" and any(compat((L.right.sym, L.right.id, g.order), g.triple) for g, e in pairs)
                if isinstance(R, model.CStoch):
                    ok = ok and any((g.sym, g.id) == (R.left.sym, R.left.id) for g, e in pairs) and tv[1] == "repeat"
                if not ok:
                    viol.append({"cls": "c17.transition-edge-ignores-terminal", "msg": f"transition edge {u}->{v} is not admitted by the terminal descriptors between elements {tu[0]} and {tv[0]}", "text": text})
    have = collections.Counter((u, v, k, round(w, 12), bt) for (u, v, k, w, bt) in nonstatic)
    need = collections.Counter((u, v, k, round(w, 12), bt) for (u, v, k, w, bt) in ref["required"])
    for (u, v, k, w, bt), mult in need.items():
        if have.get((u, v, k, w, bt), 0) < mult:
            near = [(x[2], x[3], x[4]) for x in nonstatic if x[0] == u and x[1] == v]
            viol.append({"cls": f"c17.required-edge-missing.{k}", "msg": f"required {k} edge {u}->{v} with weight {w} and order {bt} must occur {mult}x (one per descriptor pair) but occurs {have.get((u, v, k, w, bt), 0)}x (edges between these atoms: {near})", "text": text})
            break
    return ref


def run_case(case):
    import gbigsmiles
    from gbigsmiles.core import stochastic_atom_graph_to_dot_string

    rng = random.Random(case["seed"])
    cnt = collections.Counter()
    viol, nt = [], set()
    sample = None
    for k in range(case["n"]):
        sz = rng.random() < 0.6
        try:
            ast = gen.make_molecule(rng, small=rng.random() < 0.5, families=["schulz_zimm"] if sz else None)
        except ValueError:
            continue
        text = ast.to_text(True, rng.randrange(256))
        try:
            M = gbigsmiles.Molecule(text)
        except Exception:
            cnt["rejected"] += 1
            continue
        cm = model.compile_molecule(ast)
        try:
            with time_limit(60):
                sag = M.gen_stochastic_atom_graph(expect_schulz_zimm_distribution=sz) if not sz or rng.random() < 0.5 else M.gen_stochastic_atom_graph()
        except Exception as exc:
            viol.append({"cls": "c17.graph-construction-raises", "msg": f"gen_stochastic_atom_graph raised {type(exc).__name__}: {exc}", "text": text})
            continue
        cnt["graphs_checked"] += 1
        cnt["graphs_schulz_zimm" if sz else "graphs_any_distribution"] += 1
        ref = check_graph(sag.graph, cm, text, viol, cnt)
        # the graph is a function of the notation, not of the object's history: asking twice gives the same graph, and the graph of the mirror
        # (taken AFTER this object has built its own graph) is the graph of a fresh parse of the mirror's text
        if k % 3 == 1:
            # the graph object itself can be asked to (re)generate: same graph again, no error
            fp0 = graph_fp(sag.graph)
            for again in (2, 3):
                try:
                    sag.generate()
                except Exception as exc:
                    viol.append({"cls": "c17.regenerate-raises", "msg": f"StochasticAtomGraph.generate() call #{again} on one object raised {type(exc).__name__}: {exc}"[:300], "text": text})
                    break
                cnt["regenerations"] += 1
                if graph_fp(sag.graph) != fp0:
                    viol.append({"cls": "c17.graph-differs-after-regenerate", "msg": f"StochasticAtomGraph.generate() call #{again} on one object gave a different graph: {first_diff(fp0, graph_fp(sag.graph))}", "text": text})
                    break
        if k % 3 == 0:
            try:
                flag = dict(expect_schulz_zimm_distribution=sz)
                if graph_fp(M.gen_stochastic_atom_graph(**flag).graph) != graph_fp(M.gen_stochastic_atom_graph(**flag).graph):
                    viol.append({"cls": "c17.graph-differs-between-calls", "msg": "two calls of gen_stochastic_atom_graph on one object gave different graphs", "text": text})

                mir = M.gen_mirror()
                if mir is not None:
                    mt = str(mir)
                    try:
                        fresh = gbigsmiles.Molecule(mt)
                    except Exception:
                        fresh = None
                        cnt["mirror_text_not_parseable"] += 1
                    if fresh is not None:
                        a = graph_fp(mir.gen_stochastic_atom_graph(**flag).graph)
                        b = graph_fp(fresh.gen_stochastic_atom_graph(**flag).graph)
                        cnt["mirror_graphs_compared"] += 1
                        if a != b:
                            viol.append({"cls": "c17.graph-of-mirror-differs-from-fresh-parse", "msg": f"after this object built its graph, the graph of its mirror {mt!r} differs from the graph of a fresh parse of that text ({len(a[0])} vs {len(b[0])} nodes; first differing node/edge: {first_diff(a, b)})", "text": text})
            except Exception as exc:
                cnt["mirror_probe_raised"] += 1
        try:
            stochastic_atom_graph_to_dot_string(sag)
            cnt["dot_export_ok"] += 1
        except Exception:
            cnt["dot_export_raised"] += 1
        ends = sum(len(e.ends) for e in cm.elements if isinstance(e, model.CStoch))
        multi = any(t.reading.n_atoms > 1 for t in graphs.all_tokens(cm))
        if len(cm.elements) >= 2 and ends >= 1 and multi:
            nt.add(text)
        if sample is None and ref is not None:
            sample = {"input": text, "nodes": len(ref["nodes"]), "required_non_static_edges": len(ref["required"]), "graph_edges": sag.graph.number_of_edges()}
    cnt.update(trace.take_counters())
    cnt["evaluations"] = cnt["graphs_checked"]
    seen = collections.Counter()
    out = []
    for v in viol:
        seen[v["cls"]] += 1
        if seen[v["cls"]] <= 5:
            out.append(v)
    return {"viol": out, "nt": sorted(nt), "cnt": dict(cnt), "sample": sample}
