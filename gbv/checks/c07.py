"""C07 -- a stochastic object stops growing at the first unit that exceeds its drawn mass."""
import collections
import math
import random

from .. import gen
from .. import workloads as W
from ..ast import DistAst, StochAst
from ..monitors import trace
from . import _gen_common as G

ID = "C07"
LEVEL = "exploration"
CASE_TIMEOUT = 1500
RULE = (
    "per stochastic object and generation, offline over the event log (draw, attach with masses, element enter/exit, deep-copy lineage): growth steps "
    "n = min{k>=1 : w_k - w0 > T} unless the open descriptors ran out; one draw per object; capping end groups and the prefix mass not counted. Workloads: "
    "all archetypes and six families with random targets (wrapped mode), targets forced through zero-width gauss(T,0) incl. T below one unit, negative and "
    "large (black-box mode: units counted in the returned molecule), and the exact boundary: pass 1 records d_k = w_k - w0 as the library computes it, pass 2 "
    "re-runs with T = repr(d_k) (must give k+1 units) and T = nextafter(d_k, 0) (must give k). Non-trivial: an object with n >= 2 stopped by mass; "
    "distinct by (input, stream, element)."
)
ASSUMPTIONS = ["masses are RDKit HeavyAtomMolWt floats read at attach_other exit, in the library's own order of operations"]
FLOORS = {"quick": {"objects_decided": 1000, "boundary_pairs": 60, "blackbox_objects": 200, "distinct_nontrivial": 400}, "thorough": {"objects_decided": 20000, "boundary_pairs": 1200}}


def plan(tier, seed):
    cases = []
    n = 64 if tier == "quick" else 1400
    for i in range(n):
        cases.append({"kind": "wrapped", "seed": seed * 1000303 + i, "arch": G.ARCHS[i % len(G.ARCHS)], "mols": 5, "gens": 4})
    n = 24 if tier == "quick" else 400
    for i in range(n):
        cases.append({"kind": "forced", "seed": seed * 1000313 + i, "mols": 5})
    n = 16 if tier == "quick" else 300
    for i in range(n):
        cases.append({"kind": "boundary", "seed": seed * 1000333 + i})
    return cases


def setup_worker():
    W.install()


def analyse(events, final_hist):
    """-> list of per-object records from one generation's event log"""
    recs = []
    hist = set(final_hist or [])
    stack = []
    for idx, e in enumerate(events):
        if e["k"] == "enter" and e["kind"] == "stochastic":
            stack.append({"enter": idx, "draws": [], "attaches": [], "text": e["text"], "prefix_mass": e["prefix_mass"]})
        elif e["k"] == "draw" and stack:
            stack[-1]["draws"].append(e["value"])
        elif e["k"] == "attach" and stack:
            stack[-1]["attaches"].append((idx, e))
        elif e["k"] == "exit" and e["kind"] == "stochastic" and stack:
            r = stack.pop()
            r["exc"] = e["exc"]
            recs.append(r)
    out = []
    for r in recs:
        if r["exc"] is not None or not r["attaches"]:
            out.append({"status": "raised", "text": r["text"]})
            continue
        first_oid = r["attaches"][0][1]["oid"]
        growth = [e for idx, e in r["attaches"] if e["oid"] == first_oid]
        in_final = [e for idx, e in r["attaches"] if idx in hist]
        caps_final = [e for e in in_final if e["oid"] != first_oid]
        w0 = growth[0]["mass_before"]
        d = [e["mass_after"] - w0 for e in growth]
        out.append({"status": "ok", "text": r["text"], "draws": r["draws"], "w0": w0, "d": d, "n": len(growth), "exhausted": growth[-1]["n_open_after"] == 0, "caps": len(caps_final), "growth_in_final": sum(1 for e in growth if any(e is x for x in in_final)), "prefix_mass": r["prefix_mass"]})
    return out


def judge(rec, viol, cnt, nt, text, label):
    if rec["status"] != "ok":
        cnt["objects_raised"] += 1
        return
    if len(rec["draws"]) != 1:
        viol.append({"cls": "c07.draw-count", "msg": f"{len(rec['draws'])} target masses drawn for one object in one generation", "text": text, "label": label})
        return
    T = rec["draws"][0]
    d = rec["d"]
    n = rec["n"]
    if rec["prefix_mass"] is not None and rec["w0"] != rec["prefix_mass"]:
        pass
    want = None
    for k, dk in enumerate(d, 1):
        if dk > T:
            want = k
            break
    cnt["objects_decided"] += 1
    if rec["growth_in_final"] != n:
        viol.append({"cls": "c07.returned-molecule-misses-growth", "msg": f"{n} growth steps were made but the returned molecule descends from {rec['growth_in_final']} of them", "text": text, "label": label})
    if n < 1:
        viol.append({"cls": "c07.zero-units", "msg": "no unit was added", "text": text, "label": label})
    elif want is None:
        # never exceeded: growth may only stop because nothing is left to react
        if not rec["exhausted"]:
            viol.append({"cls": "c07.stopped-early", "msg": f"growth stopped after {n} units with added mass {d[-1]!r} <= target {T!r} although descriptors were open", "text": text, "label": label, "d": d, "T": T})
        else:
            cnt["objects_exhausted"] += 1
    elif n != want:
        if rec["exhausted"] and n < want:
            cnt["objects_exhausted"] += 1
        else:
            cls = "c07.stopped-late" if n > want else "c07.stopped-early"
            viol.append({"cls": cls, "msg": f"{n} units were added; the first unit that exceeds the drawn target {T!r} is unit {want} (added masses {d[:want + 2]})", "text": text, "label": label, "d": d, "T": T})
    else:
        if n >= 2:
            nt.add(f"{text}#{label}#{rec['text'][:40]}")


def homopolymer(rng, unit=None, prefix=None, cap_heavy=False, form=None):
    """deterministic chain: one unit, prefix, heavy or light capping group"""
    ctx = gen.Ctx(rng, small=False, form=form or rng.choice(["dir", "und"]))
    u = ctx.unit([ctx.lt(), ctx.gt()], style="ends")
    lt, rt = ctx.gt(), ctx.lt()
    ends = [gen.single_atom_token("Br" if cap_heavy else "[H]", ctx.lt())] if True else []
    if rng.random() < 0.5:
        ends = [ctx.unit([ctx.lt()], [s for s in ctx.pool1 if gen.fragment_info(s)[2] > 80] or ctx.pool1)]
    from ..ast import Desc, MolAst

    s = StochAst(Desc(lt.sym, lt.id), Desc(""), [u], ends, gen.forced_dist(100.0))
    return MolAst([ctx.plain(), s], arch="homo-deterministic"), u


def run_case(case):
    import gbigsmiles

    cnt = collections.Counter()
    viol, nt = [], set()
    sample = None
    rng = random.Random(case["seed"])
    if case["kind"] == "wrapped":
        for k in range(case["mols"]):
            try:
                subj = W.Subject(case["seed"] * 131 + k, arch=case["arch"], small=(k % 2 == 0), mean_units=[0.3, 1.5, 4, 9][k % 4])
                subj.parse()
            except Exception:
                cnt["subject_failed"] += 1
                continue
            for gi in range(case["gens"]):
                s = case["seed"] * 7919 + k * 101 + gi
                obs = W.observe_generation(subj.lib, W.spy(s), budget=subj.residue_budget())
                cnt["generations"] += 1
                if obs["status"] != "ok":
                    cnt["generation_" + obs["status"]] += 1
                    if obs["draw_failed"]:
                        cnt["skipped_draw_failed"] += 1
                    continue
                recs = analyse(obs["events"], getattr(obs["mol"], "_gbv_hist", None))
                for r in recs:
                    judge(r, viol, cnt, nt, subj.text, f"seed{s}")
                    if r["status"] == "ok":
                        cnt["family_" + subj.text.split("}|")[1].split("(")[0] if "}|" in subj.text else "family_?"] += 0
                if sample is None and recs and recs[0]["status"] == "ok":
                    sample = {"input": subj.text, "rng_seed": s, "drawn_target": recs[0]["draws"], "added_mass_after_each_unit": [round(x, 3) for x in recs[0]["d"]], "units": recs[0]["n"]}
    elif case["kind"] == "forced":
        for k in range(case["mols"]):
            arch = rng.choice(["homo", "random", "block", "endinit", "alternating", "stepgrowth"])
            try:
                subj = W.Subject(case["seed"] * 31 + k, arch=arch, small=rng.random() < 0.5, forced=[-3.0, 0.01, 0.5, 1.0, 2.5, 6.3, 15.2])
                subj.parse()
            except Exception:
                cnt["subject_failed"] += 1
                continue
            for gi in range(3):
                s = case["seed"] * 7919 + k * 101 + gi
                obs = W.observe_generation(subj.lib, W.spy(s), budget=subj.residue_budget())
                cnt["generations"] += 1
                if obs["status"] != "ok":
                    cnt["generation_" + obs["status"]] += 1
                    continue
                recs = analyse(obs["events"], getattr(obs["mol"], "_gbv_hist", None))
                for r in recs:
                    judge(r, viol, cnt, nt, subj.text, f"seed{s}")
                # black box: count repeat units per element in the returned molecule, masses from the AST fragments
                from ..oracles import genaudit

                tab = genaudit.token_table(subj.lib, subj.cm)
                try:
                    inst = genaudit.partition(obs["mol"].mol, tab)
                except Exception:
                    continue
                for ei, T in subj.targets.items():
                    units = [t for t, off in inst if t.key[0] == ei and t.kind == "repeat"]
                    acc, want = 0.0, None
                    for kk, t in enumerate(units, 1):
                        acc += t.mass
                        if acc > T + 1e-6:
                            want = kk
                            break
                        if abs(acc - T) <= 1e-6:
                            want = "knife-edge"
                            break
                    cnt["blackbox_objects"] += 1
                    if want == "knife-edge":
                        cnt["blackbox_knife_edge"] += 1
                    elif want is None:
                        if subj.closable and arch in ("homo", "random", "block"):
                            viol.append({"cls": "c07.blackbox.stopped-early", "msg": f"element {ei}: {len(units)} units of total mass {acc:.3f} do not exceed the forced target {T}", "text": subj.text, "label": f"seed{s}"})
                    elif want != len(units):
                        viol.append({"cls": "c07.blackbox.stopped-late", "msg": f"element {ei}: {len(units)} units in the molecule, unit {want} already exceeds the forced target {T}", "text": subj.text, "label": f"seed{s}"})
    else:
        mol, unit = homopolymer(rng, cap_heavy=rng.random() < 0.5)
        k_probe = rng.randint(2, 5)
        # pass 1: record d_k exactly as the library computes it
        st = [e for e in mol.elements if isinstance(e, StochAst)][0]
        st.dist = gen.forced_dist(gen.unit_mass(unit) * (k_probe + 1.5))
        M1 = gbigsmiles.Molecule(mol.to_text())
        obs = W.observe_generation(M1, W.spy(1), budget=500)
        recs = analyse(obs["events"], getattr(obs["mol"], "_gbv_hist", None)) if obs["status"] == "ok" else []
        if not recs or recs[0]["status"] != "ok" or len(recs[0]["d"]) < k_probe:
            return {"viol": [], "cnt": {"boundary_setup_failed": 1}, "nt": []}
        for k in range(1, k_probe + 1):
            dk = recs[0]["d"][k - 1]
            for T, want in ((dk, k + 1), (math.nextafter(dk, 0.0), k), (math.nextafter(dk, math.inf), k + 1)):
                st.dist = DistAst("gauss", (T, 0.0), 4, True)
                text = mol.to_text()
                M2 = gbigsmiles.Molecule(text)
                obs2 = W.observe_generation(M2, W.spy(2), budget=500)
                cnt["generations"] += 1
                if obs2["status"] != "ok":
                    cnt["generation_" + obs2["status"]] += 1
                    continue
                r2 = analyse(obs2["events"], getattr(obs2["mol"], "_gbv_hist", None))[0]
                if r2["draws"] != [T]:
                    return {"harness_error": f"forced target {T!r} did not arrive: {r2['draws']} for {text}"}
                cnt["boundary_pairs"] += 1
                judge(r2, viol, cnt, nt, text, f"boundary k={k}")
                if r2["n"] != want:
                    viol.append({"cls": "c07.boundary", "msg": f"target {T!r} vs d_{k} = {dk!r}: {r2['n']} units, expected {want} (growth continues while added mass <= target)", "text": text, "label": f"k={k}"})
                if sample is None:
                    sample = {"boundary_input": text, "d_k": dk, "units": r2["n"], "expected": want}
    cnt.update(trace.take_counters())
    cnt["evaluations"] = cnt["generations"]
    return {"viol": G.dedupe(viol), "nt": sorted(nt), "cnt": dict(cnt), "sample": sample}
