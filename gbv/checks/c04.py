"""C04 -- generation only ever bonds compatible, unused descriptors with their bond order."""
import collections
import random

from . import _gen_common as G

ID = "C04"
LEVEL = "exploration"
CASE_TIMEOUT = G.CASE_TIMEOUT
RULE = (
    "(i) random streams over every archetype, (ii) all choice sequences (ScriptedRNG) of bounded instances, (iii) hostile direct driving of "
    "MolGen.attach_other with harness-edited descriptor copies (=/# orders, incompatible pairs, out-of-range indices). Every attach_other call is checked "
    "by a snapshot/postcondition contract (both descriptors open at entry and mutually compatible by the reference rule, exactly one new bond, between "
    "the two descriptor atoms after the index shift, with the prescribed order, exactly the two descriptors removed); every returned molecule's "
    "inter-residue bonds must be explained one-to-one by the attach events of its deep-copy lineage, and -- independently of the library's parser -- must "
    "join two atoms on which the NOTATION (read by the reference dummy-atom reader from the printed AST) writes mutually compatible descriptors of "
    "the bond's order, no atom carrying more inter-residue bonds than descriptors. Non-trivial: a generation with >= 3 attach events "
    "of >= 2 descriptor types; distinct by (input, stream)."
)
ASSUMPTIONS = ["non-single descriptors are not generable on this tree (known C02 finding), so =/# bonds are driven through attach_other directly"]
FLOORS = {"quick": {"contract.attach_other.post": 8000, "molecules_audited": 800, "hostile_calls": 300, "badlist_generations": 200, "distinct_nontrivial": 300}, "thorough": {"contract.attach_other.post": 150000, "hostile_calls": 3500}}


def plan(tier, seed):
    cases = G.plan_common(tier, seed, 60 if tier == "quick" else 1200, 40 if tier == "quick" else 400)
    for i in range(8 if tier == "quick" else 100):
        cases.append({"kind": "hostile", "seed": seed * 1000211 + i, "n": 60})
    for i in range(8 if tier == "quick" else 100):
        cases.append({"kind": "badlist", "seed": seed * 1000231 + i, "n": 10})
    if tier == "thorough":
        cases.insert(0, {"kind": "suite"})  # the repository's own suite under the contracts (large molecules)
    return cases


def setup_worker():
    G.W.install()


def state_fp(mg):
    from ..monitors.contracts import graph_edges, mol_atoms, mol_bonds, open_list

    return (mol_atoms(mg._mol), sorted(mol_bonds(mg._mol).items()), open_list(mg), len(mg.graph), sorted(graph_edges(mg.graph).items()))


def hostile(case):
    import rdkit.Chem.rdchem as rch
    from gbigsmiles import SmilesToken
    from gbigsmiles.mol_gen import MolGen

    from .. import gen
    from ..ast import Desc
    from ..monitors import trace
    from ..ref import compat as rc

    rng = random.Random(case["seed"])
    cnt = collections.Counter()
    viol = []
    BT = {1.0: rch.BondType.SINGLE, 2.0: rch.BondType.DOUBLE, 3.0: rch.BondType.TRIPLE}
    pool = [s for s in gen.frags(None, 2, 6)]
    sample = None
    for _ in range(case["n"]):
        toks = []
        for side in range(2):
            k = rng.randint(1, 3)
            descs = [Desc(rng.choice("$<>"), rng.choice([None, None, 1, 2])) for _ in range(k)]
            for _try in range(20):
                try:
                    toks.append(gen.build_token(rng, rng.choice(pool), descs))
                    break
                except ValueError:
                    continue
        if len(toks) != 2:
            continue
        try:
            a, b = (MolGen(SmilesToken(t.to_text(), 0, i)) for i, t in enumerate(toks))
        except Exception:
            cnt["hostile_build_failed"] += 1
            continue
        # grow `a` a little so that index shifts matter
        if rng.random() < 0.5:
            try:
                extra = MolGen(SmilesToken(toks[1].to_text(), 0, 1))
                for i, d in enumerate(a.bond_descriptors):
                    js = [j for j, e in enumerate(extra.bond_descriptors) if d.is_compatible(e)]
                    if js:
                        a.attach_other(i, extra, js[0])
                        break
            except Exception:
                pass
        if not a.bond_descriptors or not b.bond_descriptors:
            continue
        i = rng.randrange(len(a.bond_descriptors))
        j = rng.randrange(len(b.bond_descriptors))
        mode = rng.choice(["asis", "order2", "order3", "mismatch-order", "oor-self", "oor-other", "force-compat"])
        da, db = a.bond_descriptors[i], b.bond_descriptors[j]
        if mode == "force-compat" or (mode in ("order2", "order3") and rng.random() < 0.7):
            db.descriptor = {"$": "$", "<": ">", ">": "<"}[da.descriptor]
            db.descriptor_id = da.descriptor_id
        if mode in ("order2", "order3"):
            o = 2.0 if mode == "order2" else 3.0
            da.bond_type = db.bond_type = BT[o]
        if mode == "mismatch-order":
            da.bond_type = BT[2.0]
        if mode == "oor-self":
            i = len(a.bond_descriptors) + rng.randint(0, 2)
        if mode == "oor-other":
            j = len(b.bond_descriptors) + rng.randint(0, 2)
        valid = i < len(a.bond_descriptors) and j < len(b.bond_descriptors)
        ok = valid and rc.compat(rc.lib_triple(a.bond_descriptors[i]), rc.lib_triple(b.bond_descriptors[j]))
        fa, fb = state_fp(a), state_fp(b)
        trace.reset()
        cnt["hostile_calls"] += 1
        cnt["hostile_" + mode] += 1
        try:
            a.attach_other(i, b, j)
            raised = None
        except Exception as exc:
            raised = exc
        for v in trace.violations:
            if v["cls"].startswith("c04."):
                v = dict(v)
                v["hostile_mode"] = mode
                viol.append(v)
        if ok:
            cnt["hostile_expected_bond"] += 1
            if raised is not None:
                # a valence error from RDKit on an over-bonded atom is not this property's business
                cnt["hostile_compatible_raised"] += 1
        else:
            cnt["hostile_expected_refusal"] += 1
            if raised is None:
                viol.append({"cls": "c04.hostile.accepted-invalid-or-incompatible", "msg": f"attach_other({i}, ., {j}) in mode {mode} returned instead of raising", "hostile_mode": mode})
            elif state_fp(a) != fa:
                viol.append({"cls": "c04.hostile.refusal-changed-self", "msg": f"attach_other refused ({type(raised).__name__}) but changed the molecule", "hostile_mode": mode})
        if sample is None and ok and raised is None:
            sample = {"hostile_mode": mode, "tokens": [t.to_text() for t in toks], "result": a.smiles if mode == "asis" else "(non-single bond formed)"}
    cnt.update(trace.take_counters())
    cnt["evaluations"] = cnt["hostile_calls"]
    return {"viol": G.dedupe(viol), "cnt": dict(cnt), "nt": [], "sample": sample}


def badlists(case):
    """transition lists that put weight on an INCOMPATIBLE descriptor: generation must refuse (raise) whenever that
    entry is drawn and may never bond the pair"""
    from .. import gen
    from .. import workloads as W
    from ..ast import StochAst
    from ..monitors import trace
    from ..ref.compat import compat

    rng = random.Random(case["seed"])
    cnt = collections.Counter()
    viol = []
    sample = None
    for k in range(case["n"]):
        try:
            subj = W.Subject(case["seed"] * 53 + k, arch=rng.choice(["random", "endinit", "alternating", "stepgrowth", "star"]), small=True, mean_units=3)
        except ValueError:
            continue
        ast = subj.ast
        done = False
        for e in ast.elements:
            if isinstance(e, StochAst) and not done:
                descs = e.all_descs()
                reps = [x for x in descs if x[1] == "repeat"]
                d = rng.choice(reps)[0]
                lst = [float(rng.choice([1, 2])) if compat(d.triple, o.triple) and okind == "repeat" else 0.0 for o, okind, _, _ in descs]
                bad = [i for i, (o, okind, _, _) in enumerate(descs) if not compat(d.triple, o.triple)]
                if bad and sum(lst) > 0:
                    lst[rng.choice(bad)] = float(rng.choice([1, 3]))
                    d.weight = lst
                    done = True
        if not done:
            continue
        text = ast.to_text()
        import gbigsmiles

        try:
            M = gbigsmiles.Molecule(text)
        except Exception:
            continue
        for gi in range(6):
            obs = W.observe_generation(M, W.spy(case["seed"] * 17 + k * 7 + gi), budget=3000)
            cnt["badlist_generations"] += 1
            cnt["badlist_raised" if obs["status"] == "exc" else "badlist_returned"] += 1
            for v in obs["violations"]:
                if v["cls"].startswith("c04."):
                    viol.append(dict(v, text=text, label="badlist"))
        if sample is None:
            sample = {"list_addressing_incompatible_descriptor": text}
    cnt.update(trace.take_counters())
    cnt["evaluations"] = cnt["badlist_generations"]
    return {"viol": G.dedupe(viol), "cnt": dict(cnt), "nt": [], "sample": sample}


def suite_under_contracts(case):
    import glob
    import json
    import os
    import shutil
    import subprocess
    import sys

    from .. import env

    out = os.path.join(env.WORK, f"plugin-{os.getpid()}")
    shutil.rmtree(out, ignore_errors=True)
    e = dict(os.environ, GBV_PLUGIN_OUT=out, PYTHONPATH=os.pathsep.join([env.VERIF, env.DEPS, env.REPO_SRC]), PYTHONDONTWRITEBYTECODE="1")
    p = subprocess.run([sys.executable, "-m", "pytest", "-q", "-p", "no:cacheprovider", "-p", "gbv.pytest_plugin", "-n", "8", "--timeout=900", "tests"], cwd=env.REPO, env=e, capture_output=True, text=True)
    cnt = collections.Counter()
    viol = []
    for f in glob.glob(os.path.join(out, "plugin-*.json")):
        d = json.load(open(f))
        for k, v in d["counters"].items():
            cnt["suite." + k] += v
        for v in d["violations"]:
            if v["cls"].startswith(("c04.", "c05.", "c03.")):
                viol.append(dict(v, label="repository suite under contracts"))
    shutil.rmtree(out, ignore_errors=True)
    cnt["suite_runs"] = 1
    cnt["evaluations"] = cnt.get("suite.contract.attach_other.post", 0)
    res = {"viol": G.dedupe(viol), "cnt": dict(cnt), "nt": [], "sample": {"suite_tail": p.stdout.strip().splitlines()[-1] if p.stdout.strip() else p.stderr[-200:]}}
    if cnt.get("suite.contract.attach_other.post", 0) == 0:
        res["inconclusive"] = "the repository suite ran without a single attach_other contract evaluation: " + (p.stdout + p.stderr)[-300:]
    return res


def run_case(case):
    if case["kind"] == "suite":
        return suite_under_contracts(case)
    if case["kind"] == "hostile":
        return hostile(case)
    if case["kind"] == "badlist":
        return badlists(case)
    out = G.run_common("c04", case)
    from ..monitors import trace

    out.setdefault("cnt", {}).update(trace.take_counters())
    return out
