"""C12 -- mixture bookkeeping: percentages sum to 100 and masses are consistent."""
import collections
import itertools
import random

from ..ast import fmt_float
from ..monitors import contracts, trace
from ..oracles.parse import molecules_of
from ..ref import mixture as rm

ID = "C12"
LEVEL = "exploration"
CASE_TIMEOUT = 600
RULE = (
    "all assignments of {absolute, percent, unspecified} to 1-5 components (363 shapes; the notation can leave only the last component unspecified, the "
    "other shapes are counted as not expressible) x random positive values x {consistent, inconsistent by >= 1e-3, percentages > 100} x {no caller mass, "
    "consistent caller mass, inconsistent caller mass}; the exact solution of the linear system (gbv.ref.mixture) classifies each configuration as "
    "determined / under-determined / contradictory and gives every mass; compared with System.generable, system_mass and each component's "
    "absolute/relative/system mass, before and after print -> re-parse; the Mixture invariant abs = rel/100*sys is an icontract invariant on the real "
    "class. Non-trivial: >= 2 components with >= 2 kinds of specification; distinct by configuration text."
)
ASSUMPTIONS = ["components are one-token molecules", "configurations within (1e-9, 1e-4) relative of consistency are ambiguous and not used"]
FLOORS = {"quick": {"configurations": 3000, "determined_checked": 600, "under_checked": 300, "contra_checked": 300, "contract.mixture.invariant": 5000, "distinct_nontrivial": 1000}, "thorough": {"configurations": 60000}}
MOLS = ["CCO", "CCN", "CCC", "CCS", "CCF", "C1CCOC1", "CC(=O)C"]


def plan(tier, seed):
    shapes = []
    for n in range(1, 6):
        shapes += list(itertools.product(("abs", "pct", None), repeat=n))
    reps = 160 if tier == "quick" else 1200
    per = 40
    cases = []
    for i in range(0, len(shapes), per):
        cases.append({"lo": i, "hi": min(len(shapes), i + per), "reps": reps, "seed": seed * 1000003 + i})
    return cases


def setup_worker():
    contracts.install()


def build(shape, rng, variant, m0_variant):
    """-> (specs, M0, text, truth)"""
    n = len(shape)
    M = float(rng.choice([1000, 5000, 12345, 60000, 5e7, 777.5]))
    cuts = sorted(rng.uniform(0.02, 0.98) for _ in range(n - 1))
    fr = [b - a for a, b in zip([0.0] + cuts, cuts + [1.0])]
    if rng.random() < 0.3:
        # values that use the whole mantissa (small and large system masses): nothing may be rounded on the way through print -> re-parse
        M = rng.uniform(1.0, 60.0) if rng.random() < 0.6 else rng.uniform(100.0, 1e5)
        pct = [100 * f for f in fr]
        pct[-1] = 100.0 - sum(pct[:-1])
    else:
        # percentages with at most 3 decimals that sum to exactly 100
        pct = [round(100 * f, 3) for f in fr]
        pct[-1] = round(100.0 - sum(pct[:-1]), 3)
    if min(pct) <= 0.01:
        return None
    specs = []
    for k, kind in enumerate(shape):
        if kind == "abs":
            specs.append(("abs", pct[k] / 100.0 * M))
        elif kind == "pct":
            specs.append(("pct", pct[k]))
        else:
            specs.append(None)
    if variant == "inconsistent":
        idx = [k for k, s in enumerate(specs) if s]
        if not idx:
            return None
        k = rng.choice(idx)
        f = rng.choice([1.003, 0.99, 1.2, 0.5])
        specs[k] = (specs[k][0], min(specs[k][1] * f, 99.9) if specs[k][0] == "pct" else specs[k][1] * f)
    elif variant == "over100":
        idx = [k for k, s in enumerate(specs) if s and s[0] == "pct"]
        if not idx:
            return None
        k = rng.choice(idx)
        others = sum(s[1] for j, s in enumerate(specs) if s and s[0] == "pct" and j != k)
        specs[k] = ("pct", round(min(100.0, 100.0 - others + rng.choice([0.5, 5.0, 20.0])), 3))
    elif variant == "negative":
        idx = [k for k, s in enumerate(specs) if s]
        if not idx:
            return None
        k = rng.choice(idx)
        specs[k] = (specs[k][0], -abs(specs[k][1]))
    M0 = None
    if m0_variant == "negative":
        M0 = -M
    if m0_variant == "consistent":
        M0 = M
    elif m0_variant == "inconsistent":
        M0 = M * rng.choice([1.01, 0.5, 2.0])
    text = ""
    for k, s in enumerate(specs):
        text += MOLS[k % len(MOLS)]
        if s is not None:
            t = fmt_float(s[1], rng.randrange(6))  # includes the spelling with a trailing dot: '.|1234.|' (Mixture docstring)
            text += ".|" + t + ("%" if s[0] == "pct" else "") + "|"
    return specs, M0, text


def run_case(case):
    import gbigsmiles

    cnt = collections.Counter()
    viol, nt = [], set()
    rng = random.Random(case["seed"])
    shapes = []
    for n in range(1, 6):
        shapes += list(itertools.product(("abs", "pct", None), repeat=n))
    sample = None
    for shape in shapes[case["lo"] : case["hi"]]:
        if any(k is None for k in shape[:-1]):
            cnt["shapes_not_expressible"] += 1
            continue
        cnt["shapes_enumerated"] += 1
        queue = []
        for rep in range(case["reps"]):
            variant = ["consistent", "consistent", "inconsistent", "over100", "negative"][rep % 5]
            m0v = [None, "consistent", None, "inconsistent", "consistent", "negative"][(rep // 5) % 6]  # independent of the variant: all 30 combinations
            b = build(shape, rng, variant, m0v)
            if b is None:
                continue
            queue.append(b)
            if b[1] is not None and b[1] > 0 and rep % 3 == 0:
                # the very same TEXT again in the same process with another caller-supplied mass / without one: every System is judged on its own,
                # nothing may carry over from the system built before
                queue.append((b[0], None, b[2]))
                queue.append((b[0], b[1] * 2.5, b[2]))
                cnt["sibling_configurations"] += 2
        for specs, M0, text in queue:
            verdict, data = rm.solve(specs, M0)
            if verdict == "ambiguous":
                cnt["ambiguous_skipped"] += 1
                continue
            cnt["configurations"] += 1
            cnt["verdict_" + verdict] += 1
            label = f"System({text!r}, system_molweight={M0!r})"
            trace.reset()
            try:
                S = gbigsmiles.System(text, M0) if M0 is not None else gbigsmiles.System(text)
                exc = None
            except Exception as e:
                S, exc = None, e
            for v in trace.violations:
                if v["cls"].startswith("c12."):
                    viol.append(dict(v, text=label))
            kinds = {s[0] if s else "none" for s in specs}
            if len(specs) >= 2 and len(kinds) >= 2:
                nt.add(label)
            if verdict == "contra":
                cnt["contra_checked"] += 1
                if S is not None and S.generable:
                    viol.append({"cls": "c12.contradiction-accepted", "msg": f"{label} is contradictory ({data}) but is accepted and generable with system mass {safe(lambda: S.system_mass)}", "text": label})
                elif S is not None:
                    # "contradictory or over-100 % specifications are rejected": an object that merely reports 'not generable' is not a rejection.
                    # The library sums percentages only when all or all but one component carry one, and infers masses for three shapes only.
                    nP = sum(1 for x in specs if x and x[0] == "pct")
                    blind = rm.library_inference_class(specs, M0) == 0 and nP < len(specs) - 1
                    cnt["contra_not_raised"] += 1
                    viol.append({"cls": "c12.contradiction-not-rejected" + (".shape-outside-inference-classes" if blind else ""), "msg": f"{label} is contradictory ({data}) but the constructor returned an object (generable = False) instead of raising", "text": label})
                else:
                    cnt["contra_raised"] += 1
                continue
            if verdict == "under":
                cnt["under_checked"] += 1
                if exc is not None:
                    viol.append({"cls": "c12.underdetermined-raises", "msg": f"{label} is under-determined ({data}); it must report not generable but raised {type(exc).__name__}: {exc}", "text": label})
                elif S.generable:
                    viol.append({"cls": "c12.underdetermined-generable", "msg": f"{label} is under-determined ({data}) but reports generable", "text": label})
                else:
                    # printing then re-parsing keeps what was written (and invents nothing)
                    try:
                        c = str(S)
                        S2 = gbigsmiles.System(c, M0) if M0 is not None else gbigsmiles.System(c)
                        cnt["under_reparsed"] += 1
                        if S2.generable:
                            viol.append({"cls": "c12.reparse-underdetermined-became-generable", "msg": f"{label} prints {c!r}, which is generable", "text": label})
                        for i, (m2, sp) in enumerate(zip(molecules_of(S2), specs)):
                            got = None if m2.mixture is None else (m2.mixture.absolute_mass if (sp and sp[0] == "abs") else m2.mixture.relative_mass)
                            if sp is not None and (got is None or abs(got - sp[1]) > 1e-12 * max(abs(sp[1]), 1e-300)):
                                viol.append({"cls": "c12.reparse.written-value-changed", "msg": f"{label} prints {c!r}: component {i} was written {sp}, re-parsed value {got!r}", "text": label})
                                break
                    except Exception as e:
                        viol.append({"cls": "c12.reparse-raises", "msg": f"{label}: printing/re-parsing raised {type(e).__name__}: {e}", "text": label})
                continue
            # determined
            cnt["determined_checked"] += 1
            icls = rm.library_inference_class(specs, M0)
            suffix = "" if icls else ".shape-outside-inference-classes"
            if exc is not None:
                viol.append({"cls": "c12.determined-rejected" + suffix, "msg": f"{label} determines M = {data['M']!r} but raised {type(exc).__name__}: {exc}", "text": label})
                continue
            if not S.generable:
                viol.append({"cls": "c12.determined-not-generable" + suffix, "msg": f"{label} determines M = {data['M']!r}, percentages {data['pct']} but reports not generable", "text": label})
                continue
            vs = check_masses(S, specs, data, label)
            viol += vs
            # print -> re-parse keeps all masses
            try:
                c = str(S)
                S2 = gbigsmiles.System(c)
                if not S2.generable:
                    viol.append({"cls": "c12.reparse-not-generable", "msg": f"{label} prints {c!r}, which is not generable", "text": label})
                else:
                    vs2 = check_masses(S2, [None] * len(specs), data, f"re-parsed {c!r} of {label}", prefix="c12.reparse")
                    viol += vs2
                cnt["reparsed"] += 1
            except Exception as e:
                viol.append({"cls": "c12.reparse-raises", "msg": f"{label}: printing/re-parsing raised {type(e).__name__}: {e}", "text": label})
            if sample is None and len(specs) >= 3:
                sample = {"configuration": label, "solution": data, "library_system_mass": S.system_mass}
    cnt.update(trace.take_counters())
    cnt["evaluations"] = cnt["configurations"]
    seen = collections.Counter()
    out = []
    for v in viol:
        seen[v["cls"]] += 1
        if seen[v["cls"]] <= 8:
            out.append(v)
    return {"viol": out, "nt": sorted(nt), "cnt": dict(cnt), "sample": sample}


def safe(f):
    try:
        return f()
    except Exception as e:
        return f"<{type(e).__name__}>"


def check_masses(S, specs, data, label, prefix="c12"):
    out = []

    def rel(a, b):
        return abs(a - b) / max(abs(a), abs(b), 1e-300)

    try:
        M = S.system_mass
    except Exception as e:
        return [{"cls": f"{prefix}.system-mass-raises", "msg": f"{label}: system_mass raised {type(e).__name__}: {e}", "text": label}]
    if rel(M, data["M"]) > 1e-9:
        out.append({"cls": f"{prefix}.system-mass-wrong", "msg": f"{label}: system mass {M!r}, the specification determines {data['M']!r}", "text": label})
    mols = molecules_of(S)
    tot = 0.0
    for i, m in enumerate(mols):
        mx = m.mixture
        if mx is None or mx.relative_mass is None or mx.absolute_mass is None:
            out.append({"cls": f"{prefix}.component-without-mass", "msg": f"{label}: component {i} has mixture {None if mx is None else (mx.absolute_mass, mx.relative_mass)}", "text": label})
            continue
        tot += mx.relative_mass
        if rel(mx.relative_mass, data["pct"][i]) > 1e-9:
            out.append({"cls": f"{prefix}.percentage-wrong", "msg": f"{label}: component {i} has {mx.relative_mass!r} %, the specification determines {data['pct'][i]!r}", "text": label})
        if rel(mx.absolute_mass, data["abs"][i]) > 1e-9:
            out.append({"cls": f"{prefix}.absolute-mass-wrong", "msg": f"{label}: component {i} has mass {mx.absolute_mass!r}, the specification determines {data['abs'][i]!r}", "text": label})
        if mx.system_mass is None or rel(mx.system_mass, M) > 1e-9:
            out.append({"cls": f"{prefix}.components-disagree-on-system-mass", "msg": f"{label}: component {i} holds system mass {mx.system_mass!r}, the system {M!r}", "text": label})
        elif rel(mx.absolute_mass, mx.relative_mass / 100.0 * mx.system_mass) > 1e-9:
            out.append({"cls": f"{prefix}.absolute-not-percentage-of-system", "msg": f"{label}: component {i}: {mx.absolute_mass!r} != {mx.relative_mass!r}% of {mx.system_mass!r}", "text": label})
        s = specs[i]
        if s is not None:
            got = mx.absolute_mass if s[0] == "abs" else mx.relative_mass
            if rel(got, s[1]) > 1e-12:
                out.append({"cls": f"{prefix}.written-value-changed", "msg": f"{label}: component {i} was written {s}, now holds {got!r}", "text": label})
    if len(mols) == len(data["pct"]) and abs(tot - 100.0) > 1e-6:
        out.append({"cls": f"{prefix}.percentages-do-not-sum-to-100", "msg": f"{label}: percentages sum to {tot!r}", "text": label})
    return out
