"""C14 -- generated ensembles have the declared composition by mass (bounded restatement)."""
import collections
import math
import random

from .. import gen
from .. import workloads as W
from ..ast import fmt_float, Desc, DistAst, MolAst, StochAst, SysAst
from ..monitors import trace
from ..oracles.parse import molecules_of
from ..util import StepTimeout, time_limit
from . import c13

ID = "C14"
LEVEL = "exploration"
CASE_TIMEOUT = 2400
RULE = (
    "(A) three/four components of IDENTICAL molecular mass (C4H10O isomers) with distinct declared fractions in every written order: the generated mass "
    "shares must reproduce the declared fractions (6.5 sigma binomial, re-confirmed) -- here number share and mass share coincide, so the clause is "
    "decided without reference to the known per-molecule-pick deviation; (B) two- to four-component systems (light solvents and polymers whose mean masses differ by factors 1-100, declared fractions 1%-99%), system mass = N "
    "mean molecule masses; decided (i) from the generator interface: the probability vectors handed to rng.choice for the component pick (constant p*) "
    "and the measured mean molecule masses give the implied asymptotic mass share p*_i M_i / sum_j p*_j M_j, which must lie within the tolerance band of "
    "the declared fraction; (ii) from generated masses: each component's share of the generated mass within tol = max(6.5 sigma_share (delta method), "
    "3 m_max / M_sys), re-confirmed on a second stream. 'Converges' is restated as this bounded claim. Non-trivial (discriminating): the per-molecule "
    "pick law's predicted share differs from the declared fraction by > 10 tol; distinct by system text."
)
ASSUMPTIONS = ["convergence is checked as a finite-mass tolerance band, not as a limit", "component of a yielded molecule = index returned by the component pick that preceded it"]
FLOORS = {"quick": {"systems_decided": 8, "molecules_yielded": 3000, "distinct_nontrivial": 2}, "thorough": {"systems_decided": 60, "molecules_yielded": 300000}}


def plan(tier, seed):
    n = 12 if tier == "quick" else 80
    cases = [{"seed": seed * 1000607 + i, "nmol": 500 if tier == "quick" else 8000} for i in range(n)]
    # equal-mass components (isomers): number share = mass share, so the declared fractions must simply be reproduced
    for i in range(12 if tier == "quick" else 120):
        cases.append({"kind": "isomers", "seed": seed * 1000621 + i, "nmol": 1500 if tier == "quick" else 20000})
    # the same with ensembles far beyond any plausible internal batch: a composition that is fixed after the first ~1000 picks (a batch of picks that
    # is re-used instead of redrawn) is off by ~ sqrt(p q / 1000) for ever, which only a tolerance well below that value can see
    for i in range(3 if tier == "quick" else 8):
        cases.append({"kind": "isomers", "seed": seed * 1000633 + i, "nmol": 60000 if tier == "quick" else 120000})
    return cases


def setup_worker():
    W.install()


def polymer(rng, mean_mass, unit=None):
    unit = unit or rng.choice(["CC", "CCO", "CC(C)C(=O)OC", "Cc1ccccc1"])
    m = gen.fragment_info(unit)[2]
    u = gen.build_token(rng, unit, [Desc("<"), Desc(">")], "ends")
    d = DistAst("gauss", (round(mean_mass, 1), round(0.15 * mean_mass, 1)), 0, True)
    return MolAst([gen.plain_token("BrC"), StochAst(Desc(">"), Desc("<"), [u], [], d), gen.plain_token("CCl")], arch="homo")


def make(rng):
    n = rng.choice([2, 2, 3, 4])
    solvents = ["CCO", "C1CCOC1", "CC(=O)C", "c1ccccc1", "CCCCCC", "O"]
    rng.shuffle(solvents)
    mols = []
    kinds = ["solvent", "polymer"] + [rng.choice(["solvent", "polymer"]) for _ in range(n - 2)]
    rng.shuffle(kinds)
    units = ["CC", "CCO", "CC(C)C(=O)OC", "Cc1ccccc1"]
    rng.shuffle(units)
    for i, k in enumerate(kinds):
        if k == "solvent":
            mols.append(MolAst([gen.plain_token(solvents[i])], arch="small"))
        else:
            mols.append(polymer(rng, rng.choice([150, 300, 500, 800]), units[i % len(units)]))
    return SysAst(mols)


ISOMERS = ["CCCCO", "CCC(C)O", "CC(C)(C)O", "CCOCC", "COC(C)C", "COCCC"]  # C4H10O, identical heavy-atom mass


def run_isomers(case):
    import gbigsmiles
    from rdkit import Chem
    from rdkit.Chem import Descriptors

    rng = random.Random(case["seed"])
    n = rng.choice([3, 3, 4])
    smis = rng.sample(ISOMERS, n)
    base = {3: [[50, 20, 30], [60, 25, 15], [10, 70, 20]], 4: [[40, 10, 30, 20], [5, 55, 25, 15]]}[n]
    pct = list(rng.choice(base))
    rng.shuffle(pct)
    mode = rng.choice(["pct", "abs"])  # shapes the library can infer (see the C12 known finding)
    if rng.random() < 0.3 and n < len(ISOMERS):
        # a component declared with a share of 0 % (accepted by the library): its share of the ensemble must be 0, and it must not shift the others
        k0 = rng.randrange(n)  # never last: the last component carries the absolute mass in this mode
        pct.insert(k0, 0)
        smis = rng.sample(ISOMERS, n + 1)
        n += 1
        mode = "pct"
    if rng.random() < 0.25 and n >= 3 and 0 not in pct:
        # the same molecule listed twice (two lots of one ingredient): its declared share is the sum of both entries
        k_dup = rng.randrange(1, n)
        smis[k_dup] = smis[0]
    m = Descriptors.HeavyAtomMolWt(Chem.MolFromSmiles(smis[0]))
    M = m * case["nmol"]
    parts = []
    for i, (sm, p) in enumerate(zip(smis, pct)):
        if mode == "abs" or (mode == "mixed" and i % 2 == 0) or (mode == "pct" and i == n - 1):
            parts.append(f"{sm}.|{fmt_float(p / 100.0 * M, rng.randrange(6))}|")  # every spelling of a number, exponent forms included
        else:
            parts.append(f"{sm}.|{fmt_float(p, rng.randrange(6))}%|")
    text = "".join(parts)
    S = gbigsmiles.System(text)
    if not S.generable:
        return {"viol": [{"cls": "c14.system-not-generable", "msg": f"System({text!r}) not generable", "text": text}], "cnt": {}, "nt": []}
    declared = [p / 100.0 for p in pct]  # what was WRITTEN, not what the library read
    mis = misread(S, declared, text)
    if mis:
        return {"viol": [mis], "cnt": {}, "nt": []}
    canon = [Chem.MolToSmiles(Chem.MolFromSmiles(x)) for x in smis]
    if len(set(canon)) < len(canon):
        # fold duplicate listings: shares are compared per distinct molecule
        uniq = []
        for x in canon:
            if x not in uniq:
                uniq.append(x)
        declared = [sum(d for d, x in zip(declared, canon) if x == u) for u in uniq]
        smis = uniq
        canon = uniq
        n = len(uniq)
        pct = [100.0 * d for d in declared]
    cnt = collections.Counter()
    viol = []

    def shares(seed):
        trace.enabled = False
        try:
            c = collections.Counter()
            tot = 0.0
            for g in c13.run_generator(S, np_rng(seed)):
                c[g.smiles] += g.weight
                tot += g.weight
                cnt["molecules_yielded"] += 1
        finally:
            trace.enabled = True
        return [c.get(x, 0.0) / tot for x in canon], tot

    # the same declaration sampled through the single-molecule entry point System.generate
    def shares_single(seed, k):
        c = collections.Counter()
        g_rng = np_rng(seed)
        trace.enabled = False
        try:
            for _ in range(k):
                g = S.generate(rng=g_rng)
                c[g.smiles] += 1
                cnt["single_generations"] += 1
        finally:
            trace.enabled = True
        return [c.get(x, 0) / k for x in canon]

    K = 1200
    ss = shares_single(case["seed"] + 5, K)
    bad_s = [i for i in range(n) if abs(ss[i] - declared[i]) > 6.5 * math.sqrt(max(declared[i] * (1 - declared[i]), 0.0) / K) + 3.0 / K]
    if bad_s:
        ss2 = shares_single(case["seed"] + 77775, 2 * K)
        if any(abs(ss2[i] - declared[i]) > 6.5 * math.sqrt(max(declared[i] * (1 - declared[i]), 0.0) / (2 * K)) + 3.0 / (2 * K) for i in bad_s):
            i = bad_s[0]
            viol.append({"cls": "c14.equal-mass-components-composition-differs.single-generation", "msg": f"System.generate called {K} / {2 * K} times: component {i} ({smis[i]}) declared {declared[i]:.4f}, drawn with frequency {ss[i]:.4f} and {ss2[i]:.4f} (all {[round(x, 3) for x in ss]} vs declared {[round(x, 3) for x in declared]})", "text": text})
    # a second system with the same components and OTHER fractions is iterated in lock-step: each ensemble follows its own declaration
    try:
        pct_b = pct[1:] + pct[:1]
        if pct_b != pct and all(p > 0 for p in pct_b[:-1] + pct[:-1]):
            text_b = "".join(f"{sm}.|{p}%|" if i < n - 1 else f"{sm}.|{p / 100.0 * M!r}|" for i, (sm, p) in enumerate(zip(smis, pct_b)))
            B = gbigsmiles.System(text_b)
            if B.generable:
                ca, tot_a = collections.Counter(), 0.0
                trace.enabled = False
                try:
                    for ga, gb in zip(c13.run_generator(S, np_rng(case["seed"] + 31)), c13.run_generator(B, np_rng(case["seed"] + 32))):
                        ca[ga.smiles] += ga.weight
                        tot_a += ga.weight
                finally:
                    trace.enabled = True
                cnt["lockstep_pairs"] += 1
                Na = tot_a / m
                sa = [ca.get(x, 0.0) / tot_a for x in canon]
                bad_l = [i for i in range(n) if abs(sa[i] - declared[i]) > 6.5 * math.sqrt(max(declared[i] * (1 - declared[i]), 0.0) / Na) + 3.0 / Na]
                if bad_l:
                    i = bad_l[0]
                    # re-confirm: alone, the same seed must satisfy the band (otherwise it is the plain clause below that decides)
                    viol.append({"cls": "c14.equal-mass-components-composition-differs.two-systems-in-lock-step", "msg": f"{text!r} iterated in lock-step with {text_b!r}: component {i} ({smis[i]}) declared {declared[i]:.4f}, generated share {sa[i]:.4f} over {Na:.0f} molecules (all {[round(x, 3) for x in sa]} vs declared {[round(x, 3) for x in declared]}; the other system declares {[p / 100 for p in pct_b]})", "text": text})
    except Exception as exc:
        cnt["lockstep_raised"] += 1
    sh, tot = shares(case["seed"])
    N = tot / m
    bad = [i for i in range(n) if abs(sh[i] - declared[i]) > 6.5 * math.sqrt(declared[i] * (1 - declared[i]) / N) + 3.0 / N]
    cnt["isomer_systems_decided"] += 1
    cnt["systems_decided"] += 1
    if bad:
        sh2, tot2 = shares(case["seed"] + 99991)
        N2 = tot2 / m
        cnt["reconfirmations"] += 1
        if any(abs(sh2[i] - declared[i]) > 6.5 * math.sqrt(declared[i] * (1 - declared[i]) / N2) + 3.0 / N2 for i in bad):
            i = bad[0]
            viol.append({"cls": "c14.equal-mass-components-composition-differs", "msg": f"components of identical molecular mass: component {i} ({smis[i]}) declared {declared[i]:.4f}, generated share {sh[i]:.4f} and {sh2[i]:.4f} over {N:.0f} / {N2:.0f} molecules (all shares {[round(x, 3) for x in sh]} vs declared {[round(x, 3) for x in declared]})", "text": text})
    cnt["evaluations"] = cnt["molecules_yielded"]
    return {"viol": viol, "nt": ["isomers:" + text], "cnt": dict(cnt), "sample": {"equal_mass_system": text, "declared": declared, "generated_shares": [round(x, 4) for x in sh], "molecules": round(N)}}


def misread(S, declared, text):
    """the mass fractions the library holds must be the written ones"""
    got = [mm.mixture.relative_mass / 100.0 for mm in molecules_of(S)]
    if len(got) != len(declared) or any(abs(a - b) > 1e-9 for a, b in zip(got, declared)):
        return {"cls": "c14.declared-fractions-misread", "msg": f"System({text!r}) declares the mass fractions {[round(x, 6) for x in declared]}, the parsed system holds {[round(x, 6) for x in got]}", "text": text}
    return None


def np_rng(seed):
    import numpy as np

    return np.random.default_rng(seed)


def run_case(case):
    import gbigsmiles

    if case.get("kind") == "isomers":
        return run_isomers(case)
    rng = random.Random(case["seed"])
    cnt = collections.Counter()
    viol, nt = [], []
    s = make(rng)
    n = len(s.mols)
    cuts = sorted(rng.choice([0.01, 0.1, 0.3, 0.5, 0.7, 0.9, 0.99, rng.uniform(0.05, 0.95)]) for _ in range(n - 1))
    fr = [b - a for a, b in zip([0.0] + cuts, cuts + [1.0])]
    fr = [max(f, 0.01) for f in fr]
    tot = sum(fr)
    pct = [round(100 * f / tot, 2) for f in fr]
    pct[-1] = round(100 - sum(pct[:-1]), 2)
    means = [c13.est_mass(m) for m in s.mols]
    # system mass such that about nmol molecules are generated under the per-molecule law
    mean_mol = sum(p / 100.0 * mm for p, mm in zip(pct, means))
    M = round(mean_mol * case["nmol"], 0)
    for m, p in zip(s.mols, pct):
        m.mixture = ("abs", p / 100.0 * M)
        m.mfmt = rng.randrange(6)  # every spelling of a number, exponent forms included
    text = s.to_text()
    S = gbigsmiles.System(text)
    if not S.generable:
        return {"viol": [{"cls": "c14.system-not-generable", "msg": f"System({text!r}) not generable", "text": text}], "cnt": {}, "nt": []}
    declared = [p / 100.0 for p in pct]  # what was WRITTEN, not what the library read
    mis = misread(S, declared, text)
    if mis:
        return {"viol": [mis], "cnt": {}, "nt": []}
    # membership of a yielded molecule is read off the molecule itself (residue numbers are unique per component)
    # (residue numbers are not unique across components, the token texts recorded on MolGen.graph are by construction)
    tokens_of = [set(str(t) for t in mm.residues) for mm in molecules_of(S)]

    def component_of(g):
        have = {d["big_smiles"] for _, d in g.graph.nodes(data=True)}
        cs = [ci for ci, ts in enumerate(tokens_of) if have <= ts]
        return cs[0] if len(cs) == 1 else None

    def run(seed):
        trace.reset()
        trace.enabled = True
        masses, comps, pvecs = [], [], []
        last_pick = None
        nev = 0
        try:
            with time_limit(1500):
                for g in c13.run_generator(S, W.spy(seed)):
                    # events since the previous molecule: the component pick is the choice event right before 'enter molecule'
                    ev = trace.events
                    pick = None
                    for i, e in enumerate(ev):
                        if e["k"] == "enter" and e["kind"] == "molecule":
                            for j in range(i - 1, -1, -1):
                                if ev[j]["k"] == "choice":
                                    pick = ev[j]
                                    break
                            break
                    if pick is not None and pick["p"] is not None:
                        pvecs.append(tuple(pick["p"]))
                    comps.append(component_of(g))
                    masses.append(g.weight)
                    del ev[:]
        except StepTimeout:
            return None
        return masses, comps, pvecs

    def judge(res, label):
        masses, comps, pvecs = res
        N = len(masses)
        total = sum(masses)
        out = {"N": N, "total": total}
        per = collections.defaultdict(list)
        for x, c in zip(masses, comps):
            per[c].append(x)
        if None in per:
            return {"undecided": "a yielded molecule could not be attributed to one component"}
        mbar = [sum(per[i]) / len(per[i]) if per[i] else means[i] for i in range(n)]
        mmax = max(masses)
        shares = [sum(per[i]) / total for i in range(n)]
        EX = total / N
        tols = []
        for i in range(n):
            z = [(x if c == i else 0.0) - shares[i] * x for x, c in zip(masses, comps)]
            var = sum(v * v for v in z) / N / (EX * EX) / N
            tols.append(max(6.5 * math.sqrt(var), 3 * mmax / total))
        out.update(shares=shares, tols=tols, mbar=mbar)
        # number fractions: under a per-molecule pick with p = declared fraction they reproduce the declared fractions
        out["count_fractions"] = [len(per[i]) / N for i in range(n)]
        pset = set(pvecs)
        if len(pset) == 1 and len(pvecs) == N:
            pstar = list(pset)[0]
            den = sum(p * m for p, m in zip(pstar, mbar))
            implied = [p * m / den for p, m in zip(pstar, mbar)]
            out.update(pstar=pstar, implied=implied)
        return out

    res = run(case["seed"])
    if res is None:
        return {"viol": [], "cnt": {"watchdog": 1}, "nt": []}
    j = judge(res, "first")
    cnt["molecules_yielded"] += j.get("N", 0)
    if "undecided" in j:
        return {"viol": [], "cnt": dict(cnt), "nt": [], "inconclusive": j["undecided"]}
    cnt["pick_vector_seen" if "pstar" in j else "pick_vector_not_seen"] += 1
    cnt["systems_decided"] += 1
    bad_iface = []
    if "pstar" in j:
        cnt["constant_pick_vector"] += 1
        for i in range(n):
            if abs(j["implied"][i] - declared[i]) > j["tols"][i]:
                bad_iface.append(i)
        # the pick vector must also be what actually drives the ensemble: number fractions follow p*
        for i in range(n):
            d = j["pstar"][i]
            if abs(j["count_fractions"][i] - d) > 6.5 * math.sqrt(max(d * (1 - d), 1e-9) / j["N"]) + 1.0 / j["N"]:
                viol.append({"cls": "c14.components-not-drawn-with-the-probabilities-handed-to-the-generator", "msg": f"component {i} makes up {j['count_fractions'][i]:.4f} of the {j['N']} molecules although it is picked with p = {d:.4f}", "text": text})
                break
        # discriminating case?
        per_mol_share = j["implied"]
        if any(abs(per_mol_share[i] - declared[i]) > 10 * j["tols"][i] for i in range(n)):
            nt.append(text)
    bad_meas = [i for i in range(n) if abs(j["shares"][i] - declared[i]) > j["tols"][i]]
    if bad_iface or bad_meas:
        confirmed = True
        if bad_meas and not bad_iface:
            res2 = run(case["seed"] + 777)
            j2 = judge(res2, "second") if res2 else {"undecided": 1}
            cnt["reconfirmations"] += 1
            confirmed = "undecided" not in j2 and any(abs(j2["shares"][i] - declared[i]) > j2["tols"][i] for i in bad_meas)
        if confirmed:
            i = (bad_iface or bad_meas)[0]
            if "pstar" in j:
                same_as_fraction = all(abs(a - b) < 1e-9 for a, b in zip(j["pstar"], declared))
            else:
                # no constant pick vector was seen at the interface: recognise the known mechanism by its signature,
                # the NUMBER fractions of the components equal the declared mass fractions (binomial 6.5 sigma)
                same_as_fraction = all(abs(c - d) <= 6.5 * math.sqrt(max(d * (1 - d), 1e-9) / j["N"]) + 1.0 / j["N"] for c, d in zip(j["count_fractions"], declared))
            cls = "c14.component-picked-per-molecule-with-p-equal-mass-fraction" if same_as_fraction else "c14.composition-differs-from-declared"
            viol.append({"cls": cls, "msg": f"component {i}: declared mass fraction {declared[i]:.4f}, generated share {j['shares'][i]:.4f}, share implied by the constant pick vector {j.get('pstar')} and mean molecule masses {[round(x, 1) for x in j['mbar']]}: {j.get('implied', [None] * n)[i]}; tolerance {j['tols'][i]:.4f} over {j['N']} molecules", "text": text})
    cnt.update(trace.take_counters())
    cnt["evaluations"] = j["N"]
    sample = {"system": text, "declared_fractions": declared, "generated_shares": [round(x, 4) for x in j["shares"]], "pick_vector": j.get("pstar"), "mean_molecule_masses": [round(x, 1) for x in j["mbar"]], "molecules": j["N"]}
    return {"viol": viol, "nt": nt, "cnt": dict(cnt), "sample": sample}
