"""One shard of one check.  python -m gbv.worker <ID> <tier> <seed> <shard> <nshards> <out> [i,j,k]"""
import faulthandler
import json
import resource
import signal
import sys
import time
import traceback


class CaseTimeout(BaseException):
    pass


def _alarm(signum, frame):
    raise CaseTimeout()


def main(argv):
    pid, tier, seed, shard, nshards, out = argv[:6]
    seed, shard, nshards = int(seed), int(shard), int(nshards)
    only = [int(x) for x in argv[6].split(",")] if len(argv) > 6 and argv[6] else None
    faulthandler.enable(all_threads=True)
    try:
        lim = 6 << 30
        resource.setrlimit(resource.RLIMIT_AS, (lim, lim))
    except (ValueError, OSError):
        pass
    from . import env

    env.bootstrap()
    from .runner import load_check

    mod = load_check(pid)
    if hasattr(mod, "setup_worker"):
        mod.setup_worker()
    from .monitors import steps

    steps.start_coverage()
    cases = mod.plan(tier, seed)
    mine = only if only is not None else [i for i in range(len(cases)) if i % nshards == shard]
    timeout = int(getattr(mod, "CASE_TIMEOUT", 120))
    signal.signal(signal.SIGALRM, _alarm)
    with open(out, "a") as fh:
        for i in mine:
            fh.write(json.dumps({"start": i}) + "\n")
            fh.flush()
            signal.alarm(timeout)
            t0 = time.time()
            try:
                res = mod.run_case(cases[i])
            except CaseTimeout:
                res = {"timeout": True}
            except MemoryError:
                res = {"timeout": True, "memory": True}
            except Exception:
                res = {"harness_error": traceback.format_exc()}
            finally:
                signal.alarm(0)
            res["_t"] = round(time.time() - t0, 2)
            fh.write(json.dumps({"i": i, "res": res}, default=str) + "\n")
            fh.flush()
        fh.write(json.dumps({"coverage": steps.coverage_hits()}) + "\n")
        fh.flush()


if __name__ == "__main__":
    main(sys.argv[1:])
