"""Process bootstrap: make sure the library under test is /repo's *working tree* and that the
git-ignored helper packages (icontract, jsonschema) installed by `vcheck --setup` are importable."""
import os
import sys
import warnings

VERIF = os.path.dirname(os.path.dirname(os.path.abspath(__file__)))
REPO = os.environ.get("GBV_REPO", "/repo")
REPO_SRC = os.path.join(REPO, "src")
DEPS = os.path.join(VERIF, ".deps")
WORK = os.path.join(VERIF, ".work")
GUARD = "GBIGSMILES_VERIF"


def bootstrap():
    """Idempotent.  Puts REPO_SRC first on sys.path and checks that gbigsmiles comes from there."""
    os.environ.setdefault(GUARD, "1")
    if REPO_SRC not in sys.path[:1]:
        sys.path.insert(0, REPO_SRC)
    if os.path.isdir(DEPS) and DEPS not in sys.path:
        sys.path.append(DEPS)
    sys.dont_write_bytecode = True
    warnings.simplefilter("ignore")
    try:
        from rdkit import RDLogger

        RDLogger.DisableLog("rdApp.*")
    except Exception:  # pragma: no cover
        pass
    import gbigsmiles  # noqa

    got = os.path.realpath(os.path.dirname(gbigsmiles.__file__))
    want = os.path.realpath(os.path.join(REPO_SRC, "gbigsmiles"))
    if got != want:
        raise SystemExit(f"INCONCLUSIVE reason=gbigsmiles imported from {got}, expected {want}")
    os.makedirs(WORK, exist_ok=True)
    return gbigsmiles
