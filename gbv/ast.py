"""Structured description (AST) of G-BigSMILES inputs and an independent printer.

The printer is written from the BigSMILES / G-BigSMILES grammar (README "notation"), not from the
repository's generate_string.  The meaning of every printed string is known from the AST alone:
written-order atom indices, the atom each descriptor sits on, the bond order it will form."""
import dataclasses
import re
from dataclasses import dataclass, field
from typing import List, Optional, Union

from .ref.compat import ORDER_OF_PREFIX


# --------------------------------------------------------------------------- descriptors ----
@dataclass
class Desc:
    sym: str  # '$' '<' '>' or '' for the empty terminal []
    id: Optional[int] = None
    weight: Union[None, float, List[float]] = None  # None: nothing written (means 1)
    bond: str = ""  # bond character written in front of the descriptor: '' - = # :
    wfmt: int = 0  # which float syntax the printer uses
    idfmt: int = 0

    @property
    def order(self):
        return ORDER_OF_PREFIX[self.bond] if self.sym else 0.0

    @property
    def triple(self):
        return (self.sym, self.id, self.order)

    @property
    def eff_weight(self):
        if self.weight is None:
            return 1.0
        if isinstance(self.weight, (list, tuple)):
            return float(sum(self.weight))
        return float(self.weight)

    @property
    def transitions(self):
        return list(self.weight) if isinstance(self.weight, (list, tuple)) else None

    def bare(self):
        return "[" + self.sym + ("" if self.id is None else str(self.id)) + "]"


def fmt_float(x, style):
    """Several spellings of the same number; every spelling parses back to exactly float(x)."""
    x = float(x)
    cands = []
    if x == int(x) and abs(x) < 1e15:
        i = int(x)
        cands = [f"{i}", f"{i}.", f"{i}.0", f"{i}e0", repr(x)]
        if i != 0 and i % 10 == 0:
            cands.append(f"{i // 10}e1")
    else:
        r = repr(x)
        cands = [r, r]
        if r.startswith("0."):
            cands.append(r[1:])
        cands.append(f"{x:.17e}")
        cands.append(f"{x:.17E}")
    for k in range(len(cands)):
        c = cands[(style + k) % len(cands)]
        try:
            if float(c) == x:
                return c
        except ValueError:
            pass
    return repr(x)


def print_desc(d: Desc, ext=True, blanks=0, trailing_dot_ok=True):
    """Text of a descriptor *without* its bond character."""
    if d.sym == "":
        return "[]"
    s = "[" + d.sym
    if d.id is not None:
        s += str(d.id)
    if ext and d.weight is not None:
        sp = " " if blanks & 1 else ""
        sp2 = " " if blanks & 2 else ""
        if isinstance(d.weight, (list, tuple)):
            body = " ".join(_no_trailing_dot(fmt_float(w, d.wfmt + k), trailing_dot_ok) for k, w in enumerate(d.weight))
        else:
            body = _no_trailing_dot(fmt_float(d.weight, d.wfmt), trailing_dot_ok)
        s += "|" + sp + body + sp2 + "|"
    return s + "]"


def _no_trailing_dot(txt, ok):
    if not ok and txt.endswith("."):
        return txt + "0"
    return txt


# ------------------------------------------------------------------------------- tokens -----
@dataclass
class Node:
    atom: str  # atom text as written: C, Cl, c, [Si], [N+], [13C], [H]
    bond: str = ""  # bond character towards the parent
    rings: List[str] = field(default_factory=list)  # ring-closure texts after the atom: '1', '=2'
    kids: list = field(default_factory=list)  # Node | DescRef, written in this order
    paren_last: bool = False  # write the last kid in parentheses too
    index: int = -1  # written-order atom index, filled by TokenAst.reindex()


@dataclass
class DescRef:
    desc: Desc


@dataclass
class TokenAst:
    root: Node
    first: Optional[Desc] = None  # descriptor written before the first atom: "[$]=CC"
    name: str = ""

    # --- derived data -------------------------------------------------------------------
    def reindex(self):
        self._atoms = []

        def walk(n):
            n.index = len(self._atoms)
            self._atoms.append(n)
            for k in n.kids:
                if isinstance(k, Node):
                    walk(k)

        walk(self.root)
        return self

    @property
    def atoms(self):
        self.reindex()
        return self._atoms

    def descriptors(self):
        """[(Desc, atom index)] in written order."""
        self.reindex()
        out = []
        if self.first is not None:
            out.append((self.first, 0))

        def walk(n):
            for k in n.kids:
                if isinstance(k, Node):
                    walk(k)
                else:
                    out.append((k.desc, n.index))

        walk(self.root)
        return out

    def to_text(self, ext=True, blanks=0, trailing_dot_ok=True):
        def w(n):
            s = n.bond + n.atom + "".join(n.rings)
            for i, k in enumerate(n.kids):
                last = i == len(n.kids) - 1
                if isinstance(k, Node):
                    t = w(k)
                else:
                    t = k.desc.bond + print_desc(k.desc, ext, blanks, trailing_dot_ok)
                if not last or n.paren_last:
                    s += "(" + t + ")"
                else:
                    s += t
            return s

        body = w(self.root)
        if self.first is not None:
            body = print_desc(self.first, ext, blanks, trailing_dot_ok) + self.first.bond + body
        return body

    def nontrivial_placement(self):
        """a descriptor that is neither the first nor the last thing written, or non-single, or list-weighted"""
        txt = self.to_text(ext=False)
        ds = self.descriptors()
        inner = False
        for m in re.finditer(r"\[[$<>][0-9]*\]", txt):
            if m.start() != 0 and m.end() != len(txt):
                inner = True
        return inner or any(d.order != 1.0 or d.transitions is not None for d, _ in ds)


# --- a tiny SMILES reader for the fragment library (atoms, bonds, branches, ring digits) -------
_ATOM_RE = re.compile(r"\[[^\]]+\]|Cl|Br|[BCNOPSFIcnosp]")


def parse_fragment(smi: str) -> TokenAst:
    pos = 0
    root = None
    stack = []  # branch stack of "current atom"
    cur = None
    pending_bond = ""
    while pos < len(smi):
        ch = smi[pos]
        if ch == "(":
            stack.append(cur)
            pos += 1
            continue
        if ch == ")":
            cur = stack.pop()
            pos += 1
            continue
        if ch in "-=#:":
            pending_bond = ch
            pos += 1
            continue
        if ch.isdigit():
            cur.rings.append(pending_bond + ch)
            pending_bond = ""
            pos += 1
            continue
        m = _ATOM_RE.match(smi, pos)
        if not m:
            raise ValueError(f"fragment library: cannot read {smi!r} at {pos}")
        n = Node(atom=m.group(0), bond=pending_bond)
        pending_bond = ""
        if cur is None:
            root = n
        else:
            cur.kids.append(n)
        cur = n
        pos = m.end()
    # children were appended in written order: branches first, chain continuation last -- but a
    # branch that was closed and then followed by further atoms makes the *later* one the chain.
    return TokenAst(root=root, name=smi).reindex()


# ------------------------------------------------------------------- stochastic objects -----
@dataclass
class DistAst:
    family: str  # gauss uniform schulz_zimm log_normal poisson flory_schulz
    params: tuple
    pfmt: int = 0
    blank: bool = True

    def to_text(self, trailing_dot_ok=True):
        ps = [_no_trailing_dot(fmt_float(p, self.pfmt + k), trailing_dot_ok) for k, p in enumerate(self.params)]
        return f"{self.family}(" + (", " if self.blank else ",").join(ps) + ")"


@dataclass
class StochAst:
    left: Desc
    right: Desc
    repeats: List[TokenAst]
    ends: List[TokenAst]
    dist: Optional[DistAst] = None

    def all_descs(self):
        """[(Desc, token_kind, token_idx, atom_idx)] in notation order: repeat units then end groups"""
        out = []
        for ti, t in enumerate(self.repeats):
            for d, a in t.descriptors():
                out.append((d, "repeat", ti, a))
        for ti, t in enumerate(self.ends):
            for d, a in t.descriptors():
                out.append((d, "end", ti, a))
        return out

    def to_text(self, ext=True, sp=0, trailing_dot_ok=True):
        a = " " if sp & 1 else ""
        comma = [", ", ",", " , ", ",  "][(sp >> 1) & 3]
        semi = ["; ", ";", " ;", " ; "][(sp >> 3) & 3]
        b = " " if sp & 32 else ""
        lt = self.left.bond + print_desc(self.left, ext, 0, trailing_dot_ok)
        s = "{" + lt + a + comma.join(t.to_text(ext, (sp >> 6) & 3, trailing_dot_ok) for t in self.repeats)
        if self.ends:
            s += semi + comma.join(t.to_text(ext, (sp >> 6) & 3, trailing_dot_ok) for t in self.ends)
        s += b + self.right.bond + print_desc(self.right, ext, 0, trailing_dot_ok) + "}"
        if ext and self.dist is not None:
            s += "|" + self.dist.to_text(trailing_dot_ok) + "|"
        return s


@dataclass
class MolAst:
    elements: list  # TokenAst | StochAst
    mixture: Optional[tuple] = None  # ('abs', x) | ('pct', x)
    mfmt: int = 0
    arch: str = ""

    def to_text(self, ext=True, sp=0, trailing_dot_ok=False):
        s = ""
        for e in self.elements:
            if isinstance(e, TokenAst):
                s += e.to_text(ext, 0, trailing_dot_ok)
            else:
                s += e.to_text(ext, sp, trailing_dot_ok)
        if self.mixture is not None:
            s += print_mixture(self.mixture, ext, self.mfmt)
        return s


def print_mixture(mix, ext=True, mfmt=0):
    if not ext:
        return "."
    kind, x = mix
    t = fmt_float(x, mfmt)  # every spelling, '.|1234.|' (the Mixture docstring's own example) included
    return ".|" + t + ("%" if kind == "pct" else "") + "|"


@dataclass
class SysAst:
    mols: List[MolAst]

    def to_text(self, ext=True, sp=0):
        return "".join(m.to_text(ext, sp) for m in self.mols)


def clone(x):
    import copy

    return copy.deepcopy(x)


def fields_of(x):
    return dataclasses.asdict(x)
