import contextlib
import signal
import time


class StepTimeout(Exception):
    """inner, generous watchdog fired: the step is INCONCLUSIVE, never a violation"""


WALL_FACTOR = 12  # the wall-clock backstop of a CPU-time limit


@contextlib.contextmanager
def time_limit(seconds):
    """Nested-safe watchdog.  The limit is on the CPU time of this process (ITIMER_PROF), so a loaded machine cannot make a healthy step look
    hung; a wall-clock backstop of WALL_FACTOR x seconds (ITIMER_REAL) catches a step that sleeps.  Outer timers are restored with the time
    that is left for them."""
    old_prof_handler = signal.getsignal(signal.SIGPROF)
    old_prof_left = signal.getitimer(signal.ITIMER_PROF)[0]
    old_real_handler = signal.getsignal(signal.SIGALRM)
    old_real_left = signal.getitimer(signal.ITIMER_REAL)[0]
    t0, c0 = time.time(), time.process_time()

    def handler(signum, frame):
        raise StepTimeout()

    wall = WALL_FACTOR * seconds
    signal.signal(signal.SIGPROF, handler)
    signal.setitimer(signal.ITIMER_PROF, seconds)
    inner_real = old_real_left <= 0 or wall < old_real_left
    if inner_real:
        signal.signal(signal.SIGALRM, handler)
        signal.setitimer(signal.ITIMER_REAL, wall)
    try:
        yield
    finally:
        signal.setitimer(signal.ITIMER_PROF, 0)
        signal.signal(signal.SIGPROF, old_prof_handler if old_prof_handler is not None else signal.SIG_DFL)
        if old_prof_left > 0:
            signal.setitimer(signal.ITIMER_PROF, max(0.05, old_prof_left - (time.process_time() - c0)))
        if inner_real:
            signal.setitimer(signal.ITIMER_REAL, 0)
            signal.signal(signal.SIGALRM, old_real_handler if old_real_handler is not None else signal.SIG_DFL)
            if old_real_left > 0:
                signal.setitimer(signal.ITIMER_REAL, max(0.05, old_real_left - (time.time() - t0)))
