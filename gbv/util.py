import contextlib
import signal
import time


class StepTimeout(Exception):
    """inner, generous wall-clock watchdog fired: the step is INCONCLUSIVE, never a violation"""


@contextlib.contextmanager
def time_limit(seconds):
    """Nested-safe wall-clock limit (restores the outer alarm with the time that is left)."""
    old_handler = signal.getsignal(signal.SIGALRM)
    old_left = signal.getitimer(signal.ITIMER_REAL)[0]
    t0 = time.time()

    def handler(signum, frame):
        raise StepTimeout()

    signal.signal(signal.SIGALRM, handler)
    signal.setitimer(signal.ITIMER_REAL, seconds)
    try:
        yield
    finally:
        signal.setitimer(signal.ITIMER_REAL, 0)
        signal.signal(signal.SIGALRM, old_handler)
        if old_left > 0:
            signal.setitimer(signal.ITIMER_REAL, max(0.05, old_left - (time.time() - t0)))
