"""Structured input generator: fragment library with attachment sites, token builder, polymer
archetypes.  Everything is a deterministic function of a random.Random instance."""
import random
from functools import lru_cache

from rdkit import Chem

from .ast import Desc, DescRef, DistAst, MolAst, Node, StochAst, SysAst, TokenAst, parse_fragment

# ------------------------------------------------------------------ fragment library --------
# (smiles, tags)   tags: s=small (<=3 heavy atoms)  t=typable by the bundled OPLS rules  a=aromatic
FRAGMENTS = [
    ("C", "st"), ("CC", "st"), ("CCC", "st"), ("CC(C)C", "t"), ("CC(C)(C)C", "t"), ("C(C)CC", "t"), ("CCCC", "t"),
    ("COC", "st"), ("OCC", "st"), ("CC(=O)OC", "t"), ("CC(=O)NC", ""), ("CC#N", "s"), ("CC(=O)O", ""), ("NC(=O)C", ""),
    ("CC(N)C", ""), ("C(N)C", "s"), ("CO", "st"), ("CN", "s"), ("CS", "s"), ("CSC", "s"), ("C=C", "s"), ("CC=CC", ""), ("C#CC", "s"),
    ("CC(F)(F)F", ""), ("C(F)F", "s"), ("CCl", "s"), ("CC(Cl)C", ""), ("CBr", "s"), ("FC(F)C", ""), ("ClCCBr", ""),
    ("Cc1ccccc1", "ta"), ("c1ccccc1", "ta"), ("CC(C)c1ccccc1", "ta"), ("c1ccncc1", "a"), ("Cc1ccncc1", "a"), ("c1ccc2ccccc2c1", "a"),
    ("c1ccsc1", "a"), ("c1ccoc1", "a"), ("Cc1ccc(F)cc1", "a"), ("CC(c1ccccc1)", "ta"),
    ("C1CCC2(CC1)CCCC2", ""), ("C1CC2CCC1C2", ""), ("C1CCCCC1", "t"), ("C1CCOC1", "t"), ("C1CC1", "s"), ("C1CCC1=O", ""),
    ("C[Si](C)(C)C", ""), ("C[Si](C)C", ""), ("C[N+](C)(C)C", ""), ("CC(=O)[O-]", ""), ("C[N+](=O)[O-]", ""), ("[NH3+]C", "s"),
    ("S(=O)C", "s"), ("CS(=O)", "s"), ("S(=O)(=O)C", ""), ("CCS(=O)(=O)", ""), ("P(C)C", "s"), ("CP(=O)(C)", ""), ("CSSC", ""), ("OP(=O)(O)C", ""),
    ("CCO[H]", ""), ("CN[H]", "s"), ("NCCCCCCN[H]", ""), ("CC(C)C[H]", ""),  # a trailing explicit hydrogen (the SI writes '[>]NCCCCCCN[H]'): no written atom follows it
    ("N([2H])CO", ""), ("CC([2H])(C)CO", ""), ("OC([3H])C", "s"),  # isotopic hydrogens are atoms (RDKit keeps them) written BEFORE possible descriptor atoms
    ("[13CH3]C", "s"), ("C[13C](=O)OC", ""), ("[2H]C", "s"), ("CC(C)(C(=O)OC)", "t"), ("CC(C(=O)OC)", "t"), ("C(=O)", "s"), ("CCOCC", "t"),
]
# the same molecule written with another atom order (descriptor atom indices follow the written order, so a cache keyed by the
# chemistry instead of the text would bond through the wrong atoms)
_TWINS = [("OCC", "CCO"), ("CC(=O)OC", "COC(C)=O"), ("NC(=O)C", "CC(N)=O"), ("Cc1ccccc1", "c1ccccc1C"), ("CC#N", "N#CC"), ("CCl", "ClC"), ("CS", "SC"),
          ("OCCCC", "CCCCO"), ("CO", "OC"), ("CN", "NC"), ("CC(C)c1ccccc1", "c1ccccc1C(C)C"), ("CC(F)(F)F", "FC(F)(F)C"), ("CCOCC", "C(C)OCC")]
_known = {f for f, _ in FRAGMENTS}
_tags = dict(FRAGMENTS)
for _a, _b in _TWINS:
    for _x, _y in ((_a, _b), (_b, _a)):
        if _x not in _known:
            FRAGMENTS.append((_x, _tags.get(_y, "").replace("s", "s")))
            _known.add(_x)
            _tags[_x] = _tags.get(_y, "")
TWIN = {}
for _a, _b in _TWINS:
    TWIN[_a] = _b
    TWIN[_b] = _a
SINGLE_ATOM_ENDS = ["[H]", "F", "Cl", "Br", "O", "N", "C", "S", "I"]
_BRACKET_CAP = {"[Si]": 4}


@lru_cache(maxsize=None)
def fragment_info(smi):
    """(n_atoms, capacity per written atom, heavy mass)"""
    params = Chem.SmilesParserParams()
    params.removeHs = False  # written hydrogens are atoms of the notation
    mol = Chem.MolFromSmiles(smi, params)
    tok = parse_fragment(smi)
    atoms = tok.atoms
    if mol is None or mol.GetNumAtoms() != len(atoms):
        raise ValueError(f"fragment {smi}: RDKit sees {None if mol is None else mol.GetNumAtoms()} atoms, reader {len(atoms)}")
    caps = []
    for a, n in zip(mol.GetAtoms(), atoms):
        if n.atom.startswith("["):
            base = _BRACKET_CAP.get(n.atom, 0)
            caps.append(max(0, base - a.GetDegree()) if base else 0)
        else:
            caps.append(a.GetTotalNumHs())
    from rdkit.Chem import Descriptors

    return len(atoms), tuple(caps), Descriptors.HeavyAtomMolWt(mol)


def frags(tag=None, min_sites=1, max_atoms=99, exclude=""):
    out = []
    for smi, tags in FRAGMENTS:
        if tag and tag not in tags:
            continue
        if any(x in tags for x in exclude):
            continue
        n, caps, _ = fragment_info(smi)
        if n <= max_atoms and sum(1 for c in caps if c > 0) >= 1 and sum(caps) >= min_sites:
            out.append(smi)
    return out


# ------------------------------------------------------------------ token builder -----------
def build_token(rng, smi, descs, style="any", spread=True):
    """Place the descriptors `descs` (in the given order of *sites*, the written order follows from
    the placement) on fragment `smi`.  style: any | ends | first-last"""
    tok = parse_fragment(smi)
    n, caps, _ = fragment_info(smi)
    caps = list(caps)
    atoms = tok.atoms
    need = [max(1, int(d.order + 0.5)) if d.order != 1.5 else 1 for d in descs]
    chosen = []
    for k, d in enumerate(descs):
        cands = [i for i in range(n) if caps[i] >= need[k]]
        if spread:
            fresh = [i for i in cands if i not in chosen]
            if fresh:
                cands = fresh
        if not cands:
            raise ValueError(f"fragment {smi} has no room for {len(descs)} descriptors")
        if style == "ends" and k == 0 and 0 in cands:
            i = 0
        elif style == "ends" and k == len(descs) - 1 and (n - 1) in cands:
            i = n - 1
        else:
            i = rng.choice(cands)
        caps[i] -= need[k]
        chosen.append(i)
    for k, (d, i) in enumerate(zip(descs, chosen)):
        node = atoms[i]
        if i == 0 and tok.first is None and ((style == "ends" and k == 0) or (style == "any" and rng.random() < 0.35)):
            tok.first = d
            continue
        ref = DescRef(d)
        if style == "ends" and k == len(descs) - 1 and i == n - 1:
            node.kids.append(ref)
            continue
        pos = rng.randint(0, len(node.kids))
        node.kids.insert(pos, ref)
        if pos == len(node.kids) - 1 and rng.random() < 0.4:
            node.paren_last = True
    # an unparenthesised descriptor may only be the last kid; Node kids after it must not exist -> by construction
    for a in atoms:
        if a.kids and isinstance(a.kids[-1], Node) is False and len(a.kids) > 1:
            pass
    _normalise(tok)
    tok.name = smi
    return tok.reindex()


def _normalise(tok):
    """A descriptor written without parentheses must be the last thing in its branch.  The printer writes
    every kid but the last in parentheses, so only one rule is left: if the last kid is a Node (chain
    continuation) nothing to do; if it is a descriptor it simply ends the branch."""
    return tok


def single_atom_token(atom, desc):
    t = TokenAst(root=Node(atom=atom), name=atom)
    if desc is not None:
        t.first = desc
    return t.reindex()


def plain_token(smi):
    return parse_fragment(smi)


# ------------------------------------------------------------------ distributions -----------
def rand_dist(rng, mean_units, unit_mass, families=None, safe=True):
    fam = rng.choice(families or ["gauss", "uniform", "log_normal", "poisson", "schulz_zimm", "flory_schulz"])
    m = max(1.0, mean_units * unit_mass)
    pf = rng.randrange(6)
    if rng.random() < 0.15 and fam in ("gauss", "log_normal", "schulz_zimm", "flory_schulz"):
        # parameters that use the whole mantissa
        f = rng.uniform(0.9, 1.1)
        if fam == "gauss":
            return DistAst("gauss", (m * f, m * rng.uniform(0.03, 0.4)), pf, rng.random() < 0.7)
        if fam == "log_normal":
            return DistAst("log_normal", (m * f, rng.uniform(1.02, 1.6)), pf, rng.random() < 0.7)
        if fam == "schulz_zimm":
            return DistAst("schulz_zimm", (m * f * rng.uniform(1.1, 1.9), m * f), pf, rng.random() < 0.7)
        return DistAst("flory_schulz", (min(0.5, 2.0 / m) * f,), pf)
    if fam == "gauss":
        return DistAst("gauss", (round(m, 1), round(m * rng.choice([0.0, 0.05, 0.2, 0.4]), 1)), pf, rng.random() < 0.7)
    if fam == "uniform":
        lo = int(m * rng.uniform(0.3, 0.9))
        return DistAst("uniform", (lo, lo + int(m * rng.uniform(0.2, 1.2)) + 1), pf, rng.random() < 0.7)
    if fam == "log_normal":
        return DistAst("log_normal", (round(m, 1), rng.choice([1.02, 1.1, 1.3, 1.6])), pf, rng.random() < 0.7)
    if fam == "poisson":
        return DistAst("poisson", (round(m),), pf)
    if fam == "schulz_zimm":
        mn = round(m, 0)
        return DistAst("schulz_zimm", (round(mn * rng.choice([1.1, 1.3, 1.6, 1.9]), 0), mn), pf, rng.random() < 0.7)
    if fam == "flory_schulz":
        return DistAst("flory_schulz", (round(min(0.5, 2.0 / m), 5),), pf)
    raise ValueError(fam)


def forced_dist(target):
    return DistAst("gauss", (float(target), 0.0), 0, True)


# ------------------------------------------------------------------ archetypes --------------
def D(sym, id=None, weight=None, bond="", rng=None):
    d = Desc(sym, id, weight, bond)
    if rng is not None:
        d.wfmt = rng.randrange(6)
    return d


class Ctx:
    """Random context for one molecule: directed or undirected form, fragment pools."""

    def __init__(self, rng, small=False, typable=False, form=None, ids=None, respell=False):
        self.rng = rng
        self.form = form or rng.choice(["dir", "dir", "und"])
        tag = "t" if typable else None
        mx = 4 if small else 99
        self.pool2 = frags(tag, 2, mx)
        self.pool3 = frags(tag, 3, mx)
        self.pool1 = frags(tag, 1, mx)
        self.small = small
        self.typable = typable
        self.base_id = ids if ids is not None else rng.choice([None, None, None, 0, 1, 2, 7, 12, 105])
        self.used = []  # fragments used so far in this molecule
        self.respell = respell  # write every fragment that has one in its other spelling (same molecule, other atom order)

    def _pick(self, pool):
        """a fragment of the pool; sometimes the respelled twin of one already used in this molecule"""
        r = self.rng
        smi = r.choice(pool)
        if r.random() < 0.3:
            tw = [TWIN[u] for u in self.used if u in TWIN and TWIN[u] in pool]
            if tw:
                smi = r.choice(tw)
        if self.respell and smi in TWIN:
            smi = TWIN[smi]
        return smi

    def lt(self, id=None, **k):  # the 'incoming' side of a unit
        return D("<" if self.form == "dir" else "$", self._id(id), rng=self.rng, **k)

    def gt(self, id=None, **k):  # the 'outgoing' side
        return D(">" if self.form == "dir" else "$", self._id(id), rng=self.rng, **k)

    def _id(self, id):
        if id is None:
            return self.base_id
        return id

    def unit(self, descs, pool=None, style=None):
        pool = pool or (self.pool3 if len(descs) > 2 else self.pool2)
        for _ in range(50):
            smi = self._pick(pool)
            try:
                t = build_token(self.rng, smi, descs, style or self.rng.choice(["any", "any", "ends"]))
                self.used.append(smi)
                return t
            except ValueError:
                continue
        raise ValueError("no fragment fits")

    def end(self, desc, multi=None):
        multi = self.rng.random() < 0.5 if multi is None else multi
        if multi:
            return self.unit([desc], self.pool1)
        atoms = ["F", "Cl", "Br", "[H]", "O", "N", "C", "[O-]", "[S-]", "[13CH3]", "[2H]", "[NH3+]"] if not self.typable else ["[H]", "F", "C", "O"]  # charged / isotopic one-atom groups too
        return single_atom_token(self.rng.choice(atoms), desc)

    def plain(self, heavy=True):
        """prefix / connector / suffix written without descriptors: the library inserts them in front of the
        first and behind the last written atom, so both must have room"""
        pool = [s for s in self.pool1 if _ends_free(s)]
        smi = self.rng.choice(pool)
        if self.respell and smi in TWIN and _ends_free(TWIN[smi]):
            smi = TWIN[smi]
        self.used.append(smi)
        return plain_token(smi)

    def weight(self):
        if self.rng.random() < 0.12:
            return self.rng.uniform(0.05, 9.0)  # a value that uses the whole mantissa: printing must not round it
        return self.rng.choice([None, None, 2.0, 0.5, 3.0, 0.25, 10.0, 1.0, 0.0, 2.0])


def _ends_free(smi):
    n, caps, _ = fragment_info(smi)
    last = _last_chain_atom(smi)
    if n == 1:
        return caps[0] >= 2
    return caps[0] >= 1 and caps[last] >= 1


@lru_cache(maxsize=None)
def _last_chain_atom(smi):
    """index of the atom a descriptor appended to the text would bond to"""
    from .ref.token import read_token

    return read_token(parse_fragment(smi).to_text() + "[$]").desc_atom[0]  # the text as the printer writes it


def unit_mass(tok):
    return fragment_info(tok.name)[2] if tok.name else 14.0


def _dist_for(ctx, units, mean_units=None, forced=None, families=None):
    m = sum(unit_mass(u) for u in units) / max(1, len(units))
    if forced is not None:
        return forced_dist(forced)
    return rand_dist(ctx.rng, mean_units or ctx.rng.choice([1.5, 3, 5, 8]), max(m, 12.0), families)


def arch_homo(ctx, families=None, mean_units=None):
    """(1) homopolymer with prefix / suffix"""
    r = ctx.rng
    u = ctx.unit([ctx.lt(), ctx.gt()])
    left, right = ctx.gt(), ctx.lt()  # prefix carries the 'outgoing' symbol; suffix the 'incoming'
    left = D(left.sym, left.id)
    right = D(right.sym, right.id)
    ends = []
    closed_right = r.random() < 0.4
    if closed_right:
        ends = [ctx.end(ctx.lt())]
        if ctx.form == "und" or r.random() < 0.3:
            ends.append(ctx.end(ctx.lt(weight=ctx.weight())))
        right = D("")
    if not closed_right and r.random() < 0.3:
        ends = [ctx.end(ctx.lt())]  # an end group that is never needed: the chain hands over its only open descriptor
    s = StochAst(left, right, [u], ends, _dist_for(ctx, [u], mean_units, families=families))
    els = [ctx.plain(), s]
    if not closed_right:
        els.append(ctx.plain())
    return MolAst(els, arch="homo")


def arch_endinit(ctx, families=None, mean_units=None):
    """(2) end-group initiated, both ends closed by end groups"""
    u = ctx.unit([ctx.lt(), ctx.gt()])
    ends = [ctx.end(ctx.lt(weight=ctx.weight())), ctx.end(ctx.gt(weight=ctx.weight()))]
    if ctx.rng.random() < 0.4:
        ends.append(ctx.end(ctx.rng.choice([ctx.lt, ctx.gt])(weight=ctx.weight())))
    s = StochAst(D(""), D(""), [u], ends, _dist_for(ctx, [u], mean_units, families=families))
    return MolAst([s], arch="endinit")


def arch_random(ctx, families=None, mean_units=None):
    """(3) random copolymer, 2-4 units with scalar weights"""
    r = ctx.rng
    n = r.randint(2, 4)
    units = [ctx.unit([ctx.lt(weight=ctx.weight()), ctx.gt(weight=r.choice([None, None, ctx.weight()]))]) for _ in range(n)]
    lt = ctx.gt()
    rt = ctx.lt()
    if r.random() < 0.5:
        s = StochAst(D(lt.sym, lt.id), D(rt.sym, rt.id), units, [], _dist_for(ctx, units, mean_units, families=families))
        return MolAst([ctx.plain(), s, ctx.plain()], arch="random")
    ends = [ctx.end(ctx.lt()), ctx.end(ctx.gt())]
    s = StochAst(D(""), D(""), units, ends, _dist_for(ctx, units, mean_units, families=families))
    return MolAst([s], arch="random")


def arch_block(ctx, families=None, mean_units=None):
    """(4) block copolymer, 2-3 objects, with/without connector tokens (implicit or explicit descriptors)"""
    r = ctx.rng
    nb = r.randint(2, 3)
    els = [ctx.plain()]
    capped_last = r.random() < 0.35  # the last block is closed by end groups instead of a suffix token
    per_block_ids = r.random() < 0.3  # every block uses its own descriptor id (terminals of one symbol, different ids)
    ids = r.sample([0, 1, 2, 3, 5, 8, 13], nb)
    for b in range(nb):
        if per_block_ids:
            ctx.base_id = ids[b]
        u = [ctx.unit([ctx.lt(weight=r.choice([None, None, ctx.weight()])), ctx.gt()]) for _ in range(r.choice([1, 1, 2]))]
        lt, rt = ctx.gt(), ctx.lt()
        if capped_last and b == nb - 1:
            ends = [ctx.end(ctx.lt(weight=ctx.weight()))]
            if r.random() < 0.5:
                ends.append(ctx.end(ctx.gt(weight=ctx.weight())))
            els.append(StochAst(D(lt.sym, lt.id), D(""), u, ends, _dist_for(ctx, u, mean_units, families=families)))
            return MolAst(els, arch="block")
        s = StochAst(D(lt.sym, lt.id), D(rt.sym, rt.id), u, [], _dist_for(ctx, u, mean_units, families=families))
        els.append(s)
        if b < nb - 1:
            mode = r.choice(["none", "implicit", "explicit", "explicit"])
            if mode == "implicit":
                els.append(ctx.plain())
            elif mode == "explicit":
                # user-written connector: first descriptor meets the previous object, second (weight 0) the next one
                d1 = ctx.lt()
                if per_block_ids:
                    ctx.base_id = ids[b + 1]
                d2 = ctx.gt(weight=r.choice([0.0, 0.0, 0.0, None, 2.0, 0.5]))  # the hand-over side; its weight is irrelevant when it is the only candidate left
                d1 = D(d1.sym, d1.id)
                if r.random() < (0.6 if ctx.form == "und" else 0.2):
                    # the zero weight on the descriptor written FIRST (in the undirected form both descriptors are candidates for the incoming one)
                    d1.weight, d2.weight = 0.0, r.choice([None, 2.0, 0.5])
                els.append(ctx.unit([d1, d2], style="ends"))
    els.append(ctx.plain())
    return MolAst(els, arch="block")


def arch_alternating(ctx, families=None, mean_units=None):
    """(5) alternating copolymer through ids"""
    r = ctx.rng
    i1, i2 = r.sample([0, 1, 2, 3, 4, 11, 25], 2)
    a = ctx.unit([ctx.lt(i1), ctx.gt(i2)])
    b = ctx.unit([ctx.lt(i2), ctx.gt(i1)])
    ends = [ctx.end(ctx.lt(i1)), ctx.end(ctx.lt(i2))]
    lt = ctx.gt(i1)
    if r.random() < 0.5:
        s = StochAst(D(lt.sym, lt.id), D(""), [a, b], ends, _dist_for(ctx, [a, b], mean_units, families=families))
        return MolAst([ctx.plain(), s], arch="alternating")
    ends += [ctx.end(ctx.gt(i1)), ctx.end(ctx.gt(i2))]
    s = StochAst(D(""), D(""), [a, b], ends, _dist_for(ctx, [a, b], mean_units, families=families))
    return MolAst([s], arch="alternating")


def arch_stepgrowth(ctx, families=None, mean_units=None):
    """(6) step growth AA + BB (always written with directed descriptors)"""
    r = ctx.rng
    i = ctx.base_id
    aa = ctx.unit([D("<", i), D("<", i)])
    bb = ctx.unit([D(">", i), D(">", i)])
    ends = [ctx.end(D(">", i, ctx.weight())), ctx.end(D("<", i, ctx.weight()))]
    s = StochAst(D(""), D(""), [aa, bb], ends, _dist_for(ctx, [aa, bb], mean_units, families=families))
    return MolAst([s], arch="stepgrowth")


def arch_star(ctx, families=None, mean_units=None):
    """(7) star: a low-weight branching core among linear units"""
    r = ctx.rng
    u = ctx.unit([ctx.lt(), ctx.gt()])
    core = ctx.unit([ctx.lt(weight=r.choice([0.1, 0.05, 0.3])), ctx.gt(), ctx.gt()])
    ends = [ctx.end(ctx.lt()), ctx.end(ctx.gt())]
    s = StochAst(D(""), D(""), [u, core], ends, _dist_for(ctx, [u], mean_units, families=families))
    return MolAst([s], arch="star")


def arch_graft(ctx, families=None, mean_units=None):
    """(8) graft: backbone unit with a directed id-2 site, side-chain units, caps"""
    r = ctx.rng
    gid = r.choice([0, 2, 3, 9]) if ctx.base_id != 0 else r.choice([2, 3, 9])
    bb = ctx.unit([ctx.lt(), D(">", gid), ctx.gt()])
    side = ctx.unit([D("<", gid), D(">", gid)])
    ends = [ctx.end(D("<", gid)), ctx.end(ctx.lt())]
    lt = ctx.gt()
    if r.random() < 0.4:
        # backbone continues into a suffix: the right terminal reserves the backbone's growing end, grafts are capped
        rt = ctx.lt()
        s = StochAst(D(lt.sym, lt.id), D(rt.sym, rt.id), [bb, side], ends, _dist_for(ctx, [bb, side], mean_units, families=families))
        return MolAst([ctx.plain(), s, ctx.plain()], arch="graft")
    s = StochAst(D(lt.sym, lt.id), D(""), [bb, side], ends, _dist_for(ctx, [bb, side], mean_units, families=families))
    return MolAst([ctx.plain(), s], arch="graft")


def arch_hyper(ctx, families=None, mean_units=None):
    """(9) hyper-branched AB2"""
    u = ctx.unit([ctx.lt(), ctx.gt(), ctx.gt()])
    ends = [ctx.end(ctx.lt()), ctx.end(ctx.gt())]
    if ctx.rng.random() < 0.35:
        lt, rt = ctx.gt(), ctx.lt()
        s = StochAst(D(lt.sym, lt.id), D(rt.sym, rt.id), [u], [ctx.end(ctx.lt())], _dist_for(ctx, [u], mean_units or ctx.rng.choice([1.5, 3, 4]), families=families))
        return MolAst([ctx.plain(), s, ctx.plain()], arch="hyper")
    s = StochAst(D(""), D(""), [u], ends, _dist_for(ctx, [u], mean_units or ctx.rng.choice([1.5, 3, 4]), families=families))
    return MolAst([s], arch="hyper")


def arch_comb(ctx, families=None, mean_units=None):
    """(12) comb: every backbone unit carries a zero-weight site that is only capped at finalisation, optionally
    mixed with a plain unit; several zero-weight descriptors are open at the same time"""
    r = ctx.rng
    bb = ctx.unit([ctx.lt(), ctx.lt(weight=0.0), ctx.gt()])
    units = [bb]
    if r.random() < 0.5:
        units.append(ctx.unit([ctx.lt(weight=r.choice([None, 0.3, 2.0])), ctx.gt()]))
    ends = [ctx.end(ctx.gt()), ctx.end(ctx.lt())]
    if r.random() < 0.5:
        s = StochAst(D(""), D(""), units, ends, _dist_for(ctx, units, mean_units or r.choice([1.5, 3, 4]), families=families))
        return MolAst([s], arch="comb")
    lt, rt = ctx.gt(), ctx.lt()
    s = StochAst(D(lt.sym, lt.id), D(rt.sym, rt.id), units, ends, _dist_for(ctx, units, mean_units or r.choice([1.5, 3, 4]), families=families))
    return MolAst([ctx.plain(), s, ctx.plain()], arch="comb")


def arch_sidecap(ctx, families=None, mean_units=None):
    """(13) a side site that no repeat unit matches: its descriptor carries a transition list that addresses end groups only, so it is capped
    by a growth step whenever it is picked (in proportion to the list's total) and by the final capping otherwise"""
    r = ctx.rng
    sid = r.choice([i for i in (0, 4, 6, 9) if i != ctx.base_id])
    caps = [ctx.end(D(">", sid, weight=r.choice([None, 2.0])), multi=False) for _ in range(r.choice([1, 2]))]
    side = D("<", sid)
    u = ctx.unit([ctx.lt(), side, ctx.gt()])
    units = [u]
    if r.random() < 0.4:
        units.append(ctx.unit([ctx.lt(weight=ctx.weight()), ctx.gt()]))
    closed = r.random() < 0.5
    if closed:
        ends = caps + [ctx.end(ctx.lt()), ctx.end(ctx.gt())]
        s = StochAst(D(""), D(""), units, ends, _dist_for(ctx, units, mean_units or r.choice([1.5, 3]), families=families))
        m = MolAst([s], arch="sidecap")
    else:
        ends = caps + [ctx.end(ctx.lt())]
        lt, rt = ctx.gt(), ctx.lt()
        s = StochAst(D(lt.sym, lt.id), D(rt.sym, rt.id), units, ends, _dist_for(ctx, units, mean_units or r.choice([1.5, 3]), families=families))
        m = MolAst([ctx.plain(), s, ctx.plain()], arch="sidecap")
    descs = s.all_descs()
    lst = [float(r.choice([1, 2, 0.5])) if (okind == "end" and o.sym == ">" and o.id == sid) else 0.0 for o, okind, _, _ in descs]
    side.weight = lst
    return m


HOSTILE_H = ["C([H])C", "[H]C(C)C", "CC([H])([H])C", "C([H])([H])CO", "[H]N(C)C", "C([H])CC"]


def arch_hostile_h(ctx, families=None, mean_units=None):
    """hostile input class: a repeat unit that writes an explicit hydrogen BEFORE an atom that carries a bond descriptor (valid notation; the
    written-order index of that atom counts the hydrogen)"""
    r = ctx.rng
    for _ in range(200):
        smi = r.choice(HOSTILE_H)
        try:
            u = build_token(r, smi, [ctx.lt(), ctx.gt()], "any")
        except ValueError:
            continue
        h_idx = [i for i, a in enumerate(u.atoms) if a.atom == "[H]"]
        if any(a > min(h_idx) for _, a in u.descriptors()):
            break
    else:
        raise ValueError("no hostile placement")
    u.name = smi
    ends = [single_atom_token(r.choice(["F", "Cl", "O"]), ctx.lt()), single_atom_token(r.choice(["Br", "N", "C"]), ctx.gt())]
    s = StochAst(D(""), D(""), [u], ends, _dist_for(ctx, [u], mean_units or 2, families=families))
    return MolAst([s], arch="hostile_h")


def arch_twinends(ctx, families=None, mean_units=None):
    """two (or three) end groups of ONE stochastic object that are the same molecule written in another atom order (`[>]CO` and `[<]OC`): whatever
    the library keeps per fragment must be keyed by the written token, because descriptor atom indices follow the written order"""
    r = ctx.rng
    u = ctx.unit([ctx.lt(), ctx.gt()])
    pool = [f for f in ctx.pool1 if f in TWIN and TWIN[f] in ctx.pool1]
    for _ in range(200):
        a = r.choice(pool)
        try:
            ends = [build_token(r, a, [ctx.lt()], "any"), build_token(r, TWIN[a], [ctx.gt()], "any")]
            if r.random() < 0.4:
                ends.append(build_token(r, r.choice([a, TWIN[a]]), [r.choice([ctx.lt, ctx.gt])(weight=ctx.weight())], "any"))
            break
        except ValueError:
            continue
    else:
        raise ValueError("no twin pair fits")
    ctx.used += [a, TWIN[a]]
    r.shuffle(ends)
    s = StochAst(D(""), D(""), [u], ends, _dist_for(ctx, [u], mean_units or r.choice([1.5, 3]), families=families))
    return MolAst([s], arch="twinends")


def arch_initiator(ctx, families=None, mean_units=None):
    """a chain that can only START at one place: a repeat unit whose descriptors are all outgoing and carry weight 0 (nothing ever attaches it to a
    growing chain), written AFTER the ordinary units -- a one-descriptor initiator or a 2-3 arm core (the SI's one-core-per-molecule idiom).  The
    atoms of the first written token are then not a start of the stochastic atom graph"""
    r = ctx.rng
    units = [ctx.unit([ctx.lt(), ctx.gt()]) for _ in range(r.choice([1, 1, 2]))]
    arms = r.choice([1, 1, 2, 3])
    init = ctx.unit([ctx.gt(weight=0.0) for _ in range(arms)], ctx.pool1 if arms == 1 else None)
    units.insert(r.randint(1, len(units)), init)
    ends = [ctx.end(ctx.lt())]
    if r.random() < 0.4:
        ends.append(ctx.end(ctx.lt(weight=ctx.weight())))
    s = StochAst(D(""), D(""), units, ends, _dist_for(ctx, units[:1], mean_units or r.choice([2, 3, 5]), families=families))
    return MolAst([s], arch="initiator")


def arch_stopper(ctx, families=None, mean_units=None):
    """(14) a one-descriptor "chain stopper" among the repeat units: growth can run out of open descriptors before the target is reached"""
    r = ctx.rng
    u = ctx.unit([ctx.lt(), ctx.gt()])
    stop = [ctx.end(ctx.lt(weight=r.choice([None, 2.0, 0.5])), multi=r.random() < 0.5)]
    if r.random() < 0.5:
        stop.append(ctx.end(ctx.gt(weight=r.choice([None, 0.3])), multi=False))
    ends = [ctx.end(ctx.lt(weight=ctx.weight())), ctx.end(ctx.gt(weight=ctx.weight()))]
    s = StochAst(D(""), D(""), [u] + stop, ends, _dist_for(ctx, [u], mean_units or r.choice([1.5, 3]), families=families))
    return MolAst([s], arch="stopper")


def arch_deadend(ctx, families=None, mean_units=None):
    """valid notation whose generation dead-ends for some random streams: a low-weight side descriptor that only an end group matches and that
    carries no transition list -- when growth happens to pick it, no repeat unit fits and generation raises; other streams complete"""
    r = ctx.rng
    sid = r.choice([i for i in (2, 4, 6, 9) if i != ctx.base_id])
    u = ctx.unit([ctx.lt(), D("<", sid, r.choice([0.05, 0.2, 0.5])), ctx.gt()])
    units = [u, ctx.unit([ctx.lt(), ctx.gt()])]
    ends = [ctx.end(D(">", sid), multi=False), ctx.end(ctx.lt()), ctx.end(ctx.gt())]
    s = StochAst(D(""), D(""), units, ends, _dist_for(ctx, units, mean_units or 3, families=families))
    return MolAst([s], arch="deadend")


def arch_listblock(ctx, families=None, mean_units=None):
    """two stochastic objects written directly next to each other (no connector): every growing descriptor of the first carries an explicit
    transition list, the second has a plain left terminal, another number of descriptors and is closed by end groups.  The descriptor handed
    over by the first object must be judged by the second object's left terminal, not by the list it carried inside the first"""
    from .ref.compat import compat

    r = ctx.rng
    u1 = [ctx.unit([ctx.lt(), ctx.gt()]) for _ in range(r.choice([1, 2, 2]))]
    lt, rt = ctx.gt(), ctx.lt()
    s1 = StochAst(D(lt.sym, lt.id), D(rt.sym, rt.id), u1, [], _dist_for(ctx, u1, mean_units or r.choice([1.5, 3]), families=families))
    u2 = [ctx.unit([ctx.lt(), ctx.gt()])]
    ends = [ctx.end(ctx.lt())]
    if r.random() < 0.4:
        ends.append(ctx.end(ctx.lt(weight=ctx.weight())))
    s2 = StochAst(D(lt.sym, lt.id), D(""), u2, ends, _dist_for(ctx, u2, mean_units or r.choice([1.5, 3]), families=families))
    descs = s1.all_descs()
    for d, kind, ti, a in descs:
        if kind != "repeat" or not compat(d.triple, s1.right.triple):
            continue
        lst = [float(r.choice([1, 2, 3, 0.5])) if (compat(d.triple, o.triple) and okind == "repeat") else 0.0 for o, okind, _, _ in descs]
        if sum(lst) > 0:
            d.weight = lst
    return MolAst([ctx.plain(), s1, s2], arch="listblock")


def arch_lists(ctx, families=None, mean_units=None):
    """(10) explicit transition lists (optionally addressing end groups)"""
    from .ref.compat import compat

    r = ctx.rng
    base = r.choice([arch_endinit, arch_random, arch_homo, arch_alternating, arch_stepgrowth, arch_star, arch_hyper, arch_graft, arch_block, arch_block])(ctx, families, mean_units)
    for e in base.elements:
        if isinstance(e, StochAst):
            descs = e.all_descs()
            reps = [x for x in descs if x[1] == "repeat"]
            for d, kind, ti, a in r.sample(reps, r.randint(1, len(reps))):
                lst = []
                for o, okind, _, _ in descs:
                    ok = compat(d.triple, o.triple)
                    if ok and okind == "repeat":
                        lst.append(float(r.choice([1, 2, 3, 0.5])))
                    elif ok and okind == "end" and r.random() < 0.3:
                        lst.append(float(r.choice([1, 0.5])))
                    else:
                        lst.append(0.0)
                if sum(lst) > 0:
                    d.weight = lst
            # the left terminal may carry a list as well (transferred to the prefix' descriptor)
            if e.left.sym and r.random() < 0.4:
                lst = [float(r.choice([1, 2])) if (compat(e.left.triple, o.triple) and okind == "repeat") else 0.0 for o, okind, _, _ in descs]
                if sum(lst) > 0:
                    e.left.weight = lst
    base.arch = "lists"
    return base


ARCHETYPES = {
    "homo": arch_homo,
    "endinit": arch_endinit,
    "random": arch_random,
    "block": arch_block,
    "alternating": arch_alternating,
    "stepgrowth": arch_stepgrowth,
    "star": arch_star,
    "graft": arch_graft,
    "hyper": arch_hyper,
    "lists": arch_lists,
    "comb": arch_comb,
    "sidecap": arch_sidecap,
    "stopper": arch_stopper,
}


def scale_weights(m, factor):
    """multiply every written weight of a molecule by one factor: no decision of the selection law changes"""
    def sc(d):
        if d.sym == "":
            return
        if isinstance(d.weight, (list, tuple)):
            d.weight = [float(w) * factor for w in d.weight]
        else:
            d.weight = d.eff_weight * factor

    for e in m.elements:
        if isinstance(e, StochAst):
            for t in e.repeats + e.ends:
                for d, _ in t.descriptors():
                    sc(d)
            if e.left.weight is not None:
                sc(e.left)
        else:
            for d, _ in e.descriptors():
                if d.weight != 0.0:
                    sc(d)
    return m


def make_molecule(rng, arch=None, small=False, typable=False, form=None, families=None, mean_units=None, ids=None, respell=False):
    arch = arch or rng.choice(sorted(ARCHETYPES))
    for _ in range(20):
        ctx = Ctx(rng, small=small, typable=typable, form=form, ids=ids, respell=respell)
        try:
            m = ARCHETYPES[arch](ctx, families, mean_units)
            m.arch = arch
            if rng.random() < 0.12:
                # scalar weights written on terminal descriptors (the left one is handed to the prefix' descriptor)
                for e in m.elements:
                    if isinstance(e, StochAst):
                        if e.left.sym and e.left.weight is None and rng.random() < 0.6:
                            e.left.weight = rng.choice([2.0, 0.5, 3.0, 0.0])
                        if e.right.sym and rng.random() < 0.4:
                            e.right.weight = rng.choice([2.0, 0.25, 7.0])
            if rng.random() < 0.12:
                scale_weights(m, rng.choice([1e-9, 1e-9, 1e6, 3e-10]))
            return m
        except ValueError:
            continue
    raise ValueError(f"could not build archetype {arch}")


def make_system(rng, n=None, **kw):
    n = n or rng.randint(2, 4)
    mols = []
    for i in range(n):
        if rng.random() < 0.35:
            m = MolAst([plain_token(rng.choice(["CCO", "C1CCOC1", "CC(=O)C", "c1ccccc1", "CCCCCC", "O", "CO"]))], arch="small")
        else:
            m = make_molecule(rng, **kw)
        mols.append(m)
    return SysAst(mols)
