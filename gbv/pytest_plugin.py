"""pytest plugin: runs the repository's own suite with all harness-side contracts on (large molecules of the
documented corpus as an extra workload).  Usage:
  GBV_PLUGIN_OUT=<dir> PYTHONPATH=/verif:/verif/.deps:/repo/src pytest -p gbv.pytest_plugin -n 10 tests
Each xdist worker writes <dir>/plugin-<pid>.json with the recorded contract violations and evaluation counters."""
import json
import os


def pytest_configure(config):
    from . import env

    env.bootstrap()
    from .monitors import contracts, trace

    trace.enabled = False  # no event log (memory); violations and counters are still recorded
    contracts.install()


def pytest_sessionfinish(session, exitstatus):
    from .monitors import trace

    out = os.environ.get("GBV_PLUGIN_OUT")
    if not out:
        return
    os.makedirs(out, exist_ok=True)
    with open(os.path.join(out, f"plugin-{os.getpid()}.json"), "w") as fh:
        json.dump({"violations": trace.violations[:200], "n_violations": len(trace.violations), "counters": dict(trace.counters)}, fh, default=str)
