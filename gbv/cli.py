import argparse
import os
import sys


def main():
    ap = argparse.ArgumentParser()
    ap.add_argument("pid", nargs="?")
    ap.add_argument("--tier", default=os.environ.get("VERIF_TIER", "quick"), choices=["quick", "thorough"])
    ap.add_argument("--seed", type=int, default=None)
    ap.add_argument("--replay")
    ap.add_argument("--jobs", type=int, default=None)
    ap.add_argument("--selfcheck", action="store_true")
    a = ap.parse_args()
    from . import env

    env.bootstrap()
    if a.selfcheck:
        import icontract  # noqa
        import jsonschema  # noqa
        import gbigsmiles

        print("setup ok: gbigsmiles from", gbigsmiles.__file__)
        return 0
    from . import runner

    seed = a.seed if a.seed is not None else int(os.environ.get("VERIF_SEED", "0") or 0)
    if a.replay:
        return runner.replay(a.pid, a.replay)
    return runner.run_check(a.pid, a.tier, seed, a.jobs)


if __name__ == "__main__":
    sys.exit(main())
