import numpy as np, gbigsmiles, warnings, traceback, time
warnings.simplefilter("ignore")
from gbigsmiles.distribution import get_distribution
rng = np.random.default_rng(0)
for d in ["schulz_zimm(1000, 450)", "schulz_zimm(1000, 500)", "schulz_zimm(1000, 600)","schulz_zimm(400, 300)"]:
    D = get_distribution(d)
    vals=[]; errs=0
    for i in range(200):
        try: vals.append(float(D.draw_mw(rng)))
        except Exception as e: errs+=1
    print(d, "z", D._z, "errs", errs, "mean", np.mean(vals), "min", min(vals), "max", max(vals), "pmf0", D.prob_mw(0), "pmf(1)", D.prob_mw(1), "sum pmf 1..20000", sum(D.prob_mw(k) for k in range(1,20000)))
