import numpy as np, gbigsmiles, warnings, collections, networkx as nx, sys, signal
warnings.simplefilter("ignore")
from rdkit import Chem
from gbigsmiles import AtomGraph
from gbigsmiles.token import SmilesToken
print(gbigsmiles.__file__)
class TO(Exception): pass
def h(*a): raise TO()
signal.signal(signal.SIGALRM,h)
def token_map(mol):
    # stochastic node -> (token index, local atom idx), token sizes, static bonds
    tm={}; sizes=[]; n=0; k=0
    for e in mol.elements:
        toks = [e] if isinstance(e, SmilesToken) else e.repeat_tokens+e.end_tokens
        for t in toks:
            na = Chem.MolFromSmiles(t.generate_smiles_fragment()).GetNumAtoms()
            for i in range(na): tm[n+i]=(k,i)
            sizes.append(na); n+=na; k+=1
    return tm, sizes
def audit(mol, sag, ag):
    G = ag.graph; S = sag.graph; tm, sizes = token_map(mol)
    probs=[]
    if not nx.is_connected(G): probs.append("disconnected")
    # hinted partition: consecutive creation order
    groups=[]; cur=[]; curtok=None; curlocs=set()
    for x in sorted(G.nodes):
        t,l = tm[G.nodes[x]["stochastic_node"]]
        if cur and t==curtok and l not in curlocs and len(cur)<sizes[t]:
            cur.append(x); curlocs.add(l)
        else:
            if cur: groups.append(cur)
            cur=[x]; curtok=t; curlocs={l}
    if cur: groups.append(cur)
    gid={x:i for i,g in enumerate(groups) for x in g}
    comps=[set(g) for g in groups]
    inter=[]
    for g in groups:
        t = tm[G.nodes[g[0]]["stochastic_node"]][0]
        locs = sorted(tm[G.nodes[x]["stochastic_node"]][1] for x in g)
        if locs != list(range(sizes[t])): probs.append(f"incomplete residue token{t} atoms {locs} of {sizes[t]}")
    # static bonds inside each group must all be present
    for g in groups:
        bynode={G.nodes[x]["stochastic_node"]:x for x in g}
        for su in bynode:
            for _,sv,dd in S.out_edges(su, data=True):
                if dd["static_weight"] and sv in bynode and not G.has_edge(bynode[su], bynode[sv]): probs.append("missing static bond")
    for u,v,d in G.edges(data=True):
        su, sv = G.nodes[u]["stochastic_node"], G.nodes[v]["stochastic_node"]
        if gid[u]!=gid[v]: inter.append((u,v,su,sv,d["bond_type"]))
        else:
            if not any(dd["static_weight"] and int(dd["bond_type"])==int(d["bond_type"]) for dd in (S.get_edge_data(su,sv) or {}).values()): probs.append("intra-residue bond not static")
    cid=gid
    for u,v,su,sv,bt in inter:
        ok = any((not dd["static_weight"]) and int(dd["bond_type"])==int(bt) for a,b in ((su,sv),(sv,su)) for dd in (S.get_edge_data(a,b) or {}).values())
        if not ok: probs.append(f"inter-residue bond {su}-{sv} without non-static edge")
    R = nx.Graph()
    R.add_nodes_from(range(len(comps)))
    for u,v,*_ in inter:
        if R.has_edge(cid[u],cid[v]) or cid[u]==cid[v]: probs.append("residue graph multi-edge/loop")
        R.add_edge(cid[u],cid[v])
    if not nx.is_tree(R): probs.append("residue graph not a tree")
    try: Chem.SanitizeMol(ag.to_mol())
    except Exception as e: probs.append("sanitize "+str(e)[:40])
    return probs, len(comps)
strs = ["CC{[>][<]CC([>])c1ccccc1; [>]CO, [<]N(C)C [<]}|schulz_zimm(500, 400)|[H]",
 "{[][<]CC(C)[>]; [<]OC, [>]CN []}|schulz_zimm(300, 250)|",
 "OC{[>] [<]CC[>], [<|.5|]C(N[>|.1 0 0 0 0 0 0|])C[>]; [<][H], [<]C [<]}|schulz_zimm(500, 450)|COOC{[<] [<]COC[>], [<]C(ON)C[>] [>]}|schulz_zimm(500, 450)|{[<] [<]COCOC[>], [<]CONOC[>] [>]}|schulz_zimm(170, 150)|F",
 "{[][<]CC([>])[>]; [<]FC, [>]ClC []}|schulz_zimm(400,300)|".replace("FC","C(F)F").replace("ClC","CCl"),
 "F{[<][<]CC[>][>]}|schulz_zimm(400,300)|C(=O)N{[<][<]COC[>][>]}|schulz_zimm(400,300)|Cl",
 "{[][<1]CC[>2], [<2]C(=O)O[>1]; [>1]CF, [<1]CCl, [>2]CBr, [<2]CI []}|schulz_zimm(400,300)|"]
tot=collections.Counter()
for s in strs:
    m = gbigsmiles.Molecule(s); sag = m.gen_stochastic_atom_graph(True)
    for seed in range(25):
        signal.alarm(20)
        try:
            ag = AtomGraph(sag, rng=np.random.default_rng(seed)); ag.generate()
            probs, nres = audit(m, sag, ag)
            ag2 = AtomGraph(sag, rng=np.random.default_rng(seed)); ag2.generate()
            if Chem.MolToSmiles(ag.to_mol()) != Chem.MolToSmiles(ag2.to_mol()): probs.append("nondeterministic")
        except TO: probs=["TIMEOUT"]
        except Exception as e: probs=["EXC "+type(e).__name__+": "+str(e)[:60]]
        finally: signal.alarm(0)
        for p in set(x.split(" atoms")[0] for x in probs): tot[(s[:30], p)]+=1
        if not probs: tot[(s[:30], "ok")]+=1
for k,v in sorted(tot.items()): print(k, v)
