import numpy as np, gbigsmiles, warnings, traceback
warnings.simplefilter("ignore")
from rdkit import Chem
for s in ["C(=)C", "=CC=", "C(=)", "C=", "C1=.C1", "C#"]:
    m = Chem.MolFromSmiles(s)
    print(s, None if m is None else Chem.MolToSmiles(m))
for s in ["{[][$]=CC=[$]; [$]=C, [$]=O []}|uniform(30,60)|", "{[][$]C(=[$])C; =[$]C []}|uniform(30,60)|", "{[][<]=CC=[>]; [<]=C, [>]=O []}|uniform(30,60)|", "{[][<]#CC#[>]; [<]#C, [>]#N []}|uniform(30,60)|", "C=[<]{[<][>]=CC=[<][>]}|uniform(30,60)|[>]=C"]:
    try:
        m = gbigsmiles.Molecule(s)
        print(str(m))
        for seed in range(3):
            g = m.generate(rng=np.random.default_rng(seed))
            print("   ", g.smiles, g.fully_generated)
    except Exception as e:
        print("FAIL", s, type(e).__name__, e)
        traceback.print_exc(limit=3)
