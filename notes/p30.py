import itertools, random, warnings, collections
from fractions import Fraction as Fr
warnings.simplefilter("ignore")
import gbigsmiles
MOLS = ["CCO","CCN","CCC","CCS","CCF"]
def ref(specs, M):
    """specs: list of ('a',val)|('p',val)|('u',None). returns ('det', M, pcts) | ('under',) | ('contra',)"""
    n=len(specs); A=[(i,v) for i,(k,v) in enumerate(specs) if k=='a']; P=[(i,v) for i,(k,v) in enumerate(specs) if k=='p']; U=[i for i,(k,v) in enumerate(specs) if k=='u']
    sp = sum(v for _,v in P); sa = sum(v for _,v in A)
    if sp > 100: return ('contra',)
    if len(U)>1: return ('under',)
    if M is None:
        if U: 
            return ('under',)
        if not A:
            return ('under',) if sp==100 else ('contra',)
        if sp>=100: return ('contra',)
        M = sa/(1-sp/Fr(100))
    pct = {}
    for i,v in A: pct[i]=100*v/M
    for i,v in P: pct[i]=v
    tot = sum(pct.values())
    if U:
        rem = 100-tot
        if rem<=0: return ('contra',)
        pct[U[0]]=rem
    else:
        if tot!=100: return ('contra',)
    return ('det', M, pct)
rng = random.Random(5)
out = collections.Counter(); examples={}
for n in range(1,5):
    for shape in itertools.product("apu", repeat=n):
        if shape.count('u')>1: continue
        for trial in range(6):
            # build consistent truth
            parts = [Fr(rng.randint(1,40)) for _ in range(n)]; tot=sum(parts)
            pcts = [p*100/tot for p in parts]
            Mtrue = Fr(rng.choice([100, 1000, 250, 6400]))
            for giveM in (False, True):
                specs=[]; txt=""
                for i,k in enumerate(shape):
                    if k=='a': v = pcts[i]*Mtrue/100; specs.append(('a',v)); txt += MOLS[i]+".|%r|" % float(v)
                    elif k=='p': specs.append(('p',pcts[i])); txt += MOLS[i]+".|%r%%|" % float(pcts[i])
                    else: specs.append(('u',None)); txt += MOLS[i]
                if shape[-1]!='u' and 'u' in shape: pass
                # unspecified component must be last syntactically? (a molecule w/o mixture in the middle merges) -> only allow u at end
                if 'u' in shape and shape[-1]!='u': continue
                r = ref(specs, Mtrue if giveM else None)
                try:
                    S = gbigsmiles.System(txt, system_molweight=float(Mtrue) if giveM else None)
                    if S.generable:
                        ok = all(m.mixture is not None and m.mixture.relative_mass is not None and m.mixture.absolute_mass is not None for m in S._molecules)
                        tp = sum(m.mixture.relative_mass for m in S._molecules) if ok else None
                        good = ok and abs(tp-100)<1e-6 and all(abs(m.mixture.absolute_mass - m.mixture.relative_mass/100*S.system_mass) <= 1e-9*S.system_mass for m in S._molecules)
                        if r[0]=='det': good = good and abs(S.system_mass-float(r[1]))<=1e-9*float(r[1]) and all(abs(S._molecules[i].mixture.relative_mass-float(r[2][i]))<1e-6 for i in range(n))
                        lib = 'gen-ok' if good else 'gen-BAD'
                    else: lib='notgen'
                except Exception as e: lib='raise:'+type(e).__name__
                key=(r[0], lib, ''.join(shape), giveM)
                out[(r[0],lib)]+=1; examples.setdefault((r[0],lib), []).append((''.join(shape), giveM, txt))
for k,v in sorted(out.items()): 
    shapes = sorted(set((e[0],e[1]) for e in examples[k]))
    print(k, v, shapes[:12], examples[k][0][2])
ok = sorted(set((e[0],e[1]) for e in examples[('det','gen-ok')])); ng = sorted(set((e[0],e[1]) for e in examples[('det','notgen')]))
print("OK:", ok); print("NOTGEN:", ng); print("overlap", set(ok)&set(ng))
def supported(shape, M):
    n=len(shape); a=shape.count('a'); p=shape.count('p'); u=shape.count('u')
    if M: return u==0 or p==n-1
    return (a==n) or (p==n-1 and a>=1)
print("rule mismatches:", [x for x in ok if not supported(*x)], [x for x in ng if supported(*x)])
