import re, ast, sys, warnings, glob, itertools
warnings.simplefilter("ignore")
from rdkit import Chem, RDLogger
RDLogger.DisableLog("rdApp.*")
import gbigsmiles
print(gbigsmiles.__file__)
DESC = re.compile(r"\[[<>$][^\]]*\]")
def ref_token(text):
    descs = []
    def sub(m):
        descs.append(m.group(0)); return "[%d*]" % (900+len(descs))
    smi = DESC.sub(sub, text)
    ps = Chem.SmilesParserParams(); ps.sanitize=False; ps.removeHs=False
    mol = Chem.MolFromSmiles(smi, ps)
    if mol is None: return None
    dummies = {a.GetIsotope()-901: a for a in mol.GetAtoms() if a.GetAtomicNum()==0 and a.GetIsotope()>900}
    real = [a.GetIdx() for a in mol.GetAtoms() if not (a.GetAtomicNum()==0 and a.GetIsotope()>900)]
    remap = {old:new for new,old in enumerate(real)}
    out=[]
    for k in range(len(descs)):
        a = dummies[k]; nb = list(a.GetNeighbors())
        if len(nb)!=1: out.append((None,None)); continue
        b = mol.GetBondBetweenAtoms(a.GetIdx(), nb[0].GetIdx())
        out.append((remap.get(nb[0].GetIdx()), int(b.GetBondType())))
    return out
# systematic small token space: skeleton with descriptor placements
skels = ["CC", "CC(C)C", "CC(C)(C)C", "C(C)(C)C", "c1ccccc1", "CC(=O)OC", "C1CC1C", "C(Cl)(Br)C", "CC(C(C)C)C", "[Si](C)(C)C","N(C)C"]
import random
rng = random.Random(1)
def placements(skel):
    # insert descriptor texts at positions: start, end, after any atom as own branch "([x])", before ')' 
    pos = [i for i,ch in enumerate(skel)]
    outs=set()
    # positions after an atom symbol end
    atom_ends = [m.end() for m in re.finditer(r"Cl|Br|\[[^\]]+\]|[BCNOPSFIcnops]\d*", skel)] + [m.end() for m in re.finditer(r"\)", skel)]
    atom_ends = sorted(set(atom_ends)); atom_ends = atom_ends + atom_ends
    for k in (1,2,3):
        for combo in itertools.combinations(range(len(atom_ends)+1), k):
            for style in range(4):
                s = skel; off=0; ok=True
                pieces=[]
                for j,c in enumerate(combo):
                    d = ["[$]","[<]","[>]","[$1]"][(j+style)%4]
                    bondch = ["","","=","-"][(style+j)%4] if style==3 else ""
                    if c==0: ins=(0, d+bondch)
                    else:
                        e = atom_ends[c-1]
                        ins=(e, "("+bondch+d+")") if e < len(skel) else (e, bondch+d)
                    pieces.append(ins)
                # apply from the back
                for e,txt in sorted(pieces, key=lambda x:-x[0]): s = s[:e]+txt+s[e:]
                outs.add(s)
    return outs
n=0; diffs={}; rejected=0; refnone=0
for sk in skels:
    for t in sorted(placements(sk)):
        r = ref_token(t)
        if r is None or any(a is None for a,_ in r): refnone+=1; continue
        try: tok = gbigsmiles.SmilesToken(t,0,0)
        except Exception as e:
            rejected+=1; diffs.setdefault("REJECT "+type(e).__name__+" "+str(e)[:50], []).append(t); continue
        lib = [(b.atom_bonding_to, int(b.bond_type)) for b in tok.bond_descriptors]
        n+=1
        if lib != r: diffs.setdefault("BINDING", []).append((t, lib, r))
print("compared", n, "rejected", rejected, "ref unusable", refnone)
for k,v in diffs.items(): print(k, len(v), v[:4])
