import numpy as np, gbigsmiles, warnings, math
warnings.simplefilter("ignore")
from rdkit.Chem import Descriptors as D
from gbigsmiles.mol_gen import MolGen
orig = MolGen.attach_other
log=[]
def wrapped(self, self_bond_idx, other, other_bond_idx):
    r = orig(self, self_bond_idx, other, other_bond_idx); log.append(D.HeavyAtomMolWt(r.mol)); return r
MolGen.attach_other = wrapped
def run(T):
    log.clear()
    m = gbigsmiles.Molecule("F{[<][<]CC(C)[>][>]}|gauss(%s, 0)|Cl" % T)
    g = m.generate(rng=np.random.default_rng(0)); return g.smiles.count("C(C)") + g.smiles.count("(C)C") , g.smiles, list(log)
n, smi, masses = run("200")
w0 = D.HeavyAtomMolWt(gbigsmiles.Molecule("F").generate().mol)
print(n, smi, w0, masses[:8])
# growth lineage masses: with provisional finalize on copies, log contains both; take those on main lineage = strictly increasing by unit
d3 = masses[0]  # after first unit
ds=[]; cur=w0
unit = D.HeavyAtomMolWt(gbigsmiles.Molecule("CC(C)").generate().mol)
print("unit", unit)
for k in (2,3,4):
    # find recorded float for k units: F + k units (no Cl)
    cand = [x for x in masses if abs(x-(w0+k*unit))<1e-6]
    dk = cand[0]-w0
    a = run(repr(dk)); b = run(repr(math.nextafter(dk, 0)))
    print(k, repr(dk), "T=dk ->", a[1], "| T=below ->", b[1])
