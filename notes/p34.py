import numpy as np, gbigsmiles, warnings, collections
warnings.simplefilter("ignore")
from gbigsmiles.bond import BondDescriptor
from gbigsmiles.stochastic import Stochastic
from gbigsmiles.token import SmilesToken
def compat(a,b):
    if a.descriptor=="" or b.descriptor=="": return False
    if a.descriptor_id!=b.descriptor_id or int(a.bond_type)!=int(b.bond_type): return False
    return (a.descriptor,b.descriptor) in (("$","$"),("<",">"),(">","<"))
def law(cands):
    w = np.array([c.weight for c in cands], float)
    if len(w)==0: return []
    if np.all(w==w[0]): w = np.ones_like(w)
    return list(w/w.sum())
def conj_ok(term, bd):
    if term.descriptor=="": return False
    class T: pass
    t=T(); t.descriptor=term.descriptor; t.descriptor_id=term.descriptor_id; t.bond_type=term.bond_type
    return compat(t, bd)
def ref(mol):
    """expected {(id(src), id(dst), kind): p} using the live objects of mol._elements"""
    els = mol._elements; exp={}
    for ei,e in enumerate(els):
        toks = [e] if isinstance(e, SmilesToken) else e.repeat_tokens+e.end_tokens
        for t in toks:
            for g in t.bond_descriptors:
                if isinstance(e, Stochastic):
                    if g.transitions is not None:
                        for o,p in zip(e.bond_descriptors, g.transitions/g.weight):
                            if p>0: exp[(id(g),id(o),"prob")]=float(p)
                    else:
                        rep=[o for o in e.repeat_bonds if compat(g,o)]; end=[o for o in e.end_bonds if compat(g,o)]
                        for o,p in zip(rep, law(rep)):
                            if p>0: exp[(id(g),id(o),"prob")]=p
                        for o,p in zip(end, law(end)):
                            if p>0: exp[(id(g),id(o),"term_prob")]=p
                if ei+1<len(els):
                    r = els[ei+1]
                    if isinstance(e, Stochastic) and not (t in e.repeat_tokens and conj_ok(e.right_terminal, g)): continue
                    if isinstance(r, SmilesToken): c=[o for o in r.bond_descriptors if compat(g,o)]
                    else: c=[o for o in r.repeat_bonds if compat(g,o) and conj_ok(r.left_terminal,o)]
                    for o,p in zip(c, law(c)):
                        if p>0: exp[(id(g),id(o),"trans_prob")]=p
    return exp
def lib(mol):
    G = mol.gen_reaction_graph(); got={}
    for u,v,d in G.edges(data=True):
        if isinstance(u, BondDescriptor):
            for k in ("prob","term_prob","trans_prob"):
                if k in d and d[k]>0: got[(id(u),id(v),k)]=float(d[k])
    return got
strs = ["NC{[$][$]C[$][$]}|uniform(12, 72)|COOC{[$][$]C[$][$]}|uniform(12, 72)|CO",
 "[H]{[>][<]CC([>])c1ccccc1, [<]CC[>]; [>|1|]O, [<|8.0|][H][<|8.0|]}|gauss(15000, 150)|[H]",
 "OC{[>] [<]CC[>], [<|.5|]C(N[>|.1 0 0 0 0 0 0|])C[>]; [<][H], [<]C [<]}|schulz_zimm(5000, 4500)|COOC{[<] [<]COC[>], [<]C(ON)C[>] [>]}|schulz_zimm(5000, 4500)|{[<] [<]COCOC[>], [<]CONOC[>] [>]}|schulz_zimm(1700, 1500)|F",
 "{[][<|2|]CC[>|3|], [<|5|]CO[>]; [<][H], [>]F, [>|3|]Cl []}|gauss(100,10)|",
 "CCOC{[$] C([<|0.3|])(C([$])C[$]), [>|0.2|]C=CCc1ccccc1[<|0 0 0 0.1 0 0.2|] ; [>][H] [$]}|schulz_zimm(900, 800)|N",
 "F{[<][<]CC[>][>]}|gauss(60,5)|[>]CC[>|3|]",
 "F[<]{[<][<|0|]CC[>], [<|0|]CO[>][>]}|gauss(60,5)|[>]Cl",
 "{[][<1]CC[>2], [<2]C(=O)O[>1]; [>1]F, [<1]Cl, [>2]Br, [<2]I []}|uniform(100,300)|",
 "F{[<][<]CC[>]; [<]Br [>]}|gauss(300,20)|{[<][>]CO[<]; [>]N []}|gauss(300,20)|"]
for s in strs:
    m = gbigsmiles.Molecule(s); e = ref(m); g = lib(m)
    keys = set(e)|set(g); diffs=[]
    name = {}
    for el in m._elements:
        toks = [el] if isinstance(el, SmilesToken) else el.repeat_tokens+el.end_tokens
        for t in toks:
            for b in t.bond_descriptors: name[id(b)] = f"{str(t)}#{b.descriptor_num}"
    for k in keys:
        a,b = e.get(k), g.get(k)
        if a is None or b is None or abs(a-b)>1e-9: diffs.append((name.get(k[0]), name.get(k[1]), k[2], "ref", a, "lib", b))
    print(str(m)[:90], "| ref", len(e), "lib", len(g), "| diffs", len(diffs)); 
    for d in diffs[:6]: print("      ", d)
