import numpy as np, gbigsmiles, warnings, traceback, time
warnings.simplefilter("ignore")
from gbigsmiles.distribution import get_distribution
rng = np.random.default_rng(0)
for d in ["flory_schulz(0.1)", "flory_schulz(0.01)", "flory_schulz(0.5)", "schulz_zimm(11300, 7533)", "schulz_zimm(150,100)", "schulz_zimm(1500,1400)", "log_normal(100,1.2)", "poisson(100)", "gauss(100,10)", "uniform(10,100)"]:
    D = get_distribution(d)
    t=time.time(); ok=0; errs={}
    vals=[]
    for i in range(300):
        try:
            v = D.draw_mw(rng); ok+=1; vals.append(float(v))
        except Exception as e:
            errs[type(e).__name__+":"+str(e)[:80]] = errs.get(type(e).__name__+":"+str(e)[:80],0)+1
    print(d, "ok", ok, "errs", errs, "mean", np.mean(vals) if vals else None, "time", round(time.time()-t,2), str(D))
