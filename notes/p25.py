import numpy as np, gbigsmiles, warnings, copy
warnings.simplefilter("ignore")
from gbigsmiles import AtomGraph
from gbigsmiles.mol_prob import get_ensemble_prob
strs = ["F{[<|0 2 0 1 0 0|][<]CC[>], [<]CO[>]; [<]N, [>]S [>]}|schulz_zimm(300,250)|C(=O){[<][<]CC(C)[>][>]}|schulz_zimm(200,150)|Cl",
        "{[][<]CC([>])[>]; [<]F, [>]Cl []}|gauss(150,30)|",
        "N{[<][<|3|]CC[>], [<]CC(C#N)[>][>]}|log_normal(300,1.2)|O"]
for s in strs:
    a = gbigsmiles.Molecule(s); b = gbigsmiles.Molecule(s)
    base = [a.generate(rng=np.random.default_rng(k)).smiles for k in range(3)]
    s0 = str(a), a.generate_string(False), a.generable
    a.gen_reaction_graph(); a.gen_mirror(); a.elements
    try:
        sag = a.gen_stochastic_atom_graph(all("schulz" in str(e.distribution) for e in a.elements if hasattr(e,"distribution")))
        if sag.graph is not None and "schulz" in s: AtomGraph(sag, rng=np.random.default_rng(1)).generate()
    except Exception as e: print("  sag fail", type(e).__name__, e)
    a.generate(); gbigsmiles.core._GLOBAL_RNG.random(5)
    g = a.generate(rng=np.random.default_rng(0)); 
    try:
        if "hyper" not in s and "([>])" not in s: get_ensemble_prob(g.smiles, a)
    except Exception as e: print("  prob fail", type(e).__name__, str(e)[:60])
    try: g.forcefield_types
    except Exception as e: print("  ff fail", type(e).__name__, str(e)[:60])
    again = [a.generate(rng=np.random.default_rng(k)).smiles for k in range(3)]
    other = [b.generate(rng=np.random.default_rng(k)).smiles for k in range(3)]
    print(base==again, base==other, s0 == (str(a), a.generate_string(False), a.generable))
