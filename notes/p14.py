import numpy as np, gbigsmiles, warnings, traceback, time, signal
warnings.simplefilter("ignore")
from gbigsmiles.distribution import get_distribution
class Q(np.random.Generator):
    def __init__(self): super().__init__(np.random.PCG64(0)); self.q=0.5
    def uniform(self, low=0.0, high=1.0, size=None): return np.asarray(low + (high-low)*self.q) if size==() or size is None else np.full(size, low+(high-low)*self.q)
    def random(self, size=None, *a, **k): return np.asarray(self.q) if size in ((),None) else np.full(size,self.q)
class TO(Exception): pass
def h(*a): raise TO()
signal.signal(signal.SIGALRM, h)
rng = Q()
qs = list(np.linspace(0.0005, 0.9995, 400)) + [1e-6, 1-1e-6, 1-1e-9]
for d in ["flory_schulz(0.1)", "flory_schulz(0.01)", "flory_schulz(0.5)", "schulz_zimm(150,100)", "schulz_zimm(1500,1400)", "schulz_zimm(1000,600)", "log_normal(100,1.2)", "log_normal(5000,2.0)"]:
    D = get_distribution(d); bad={}; t=time.time(); badq=[]
    for q in qs:
        rng.q = q
        signal.alarm(5)
        try:
            v = D.draw_mw(rng)
            if not np.isfinite(v): bad["nonfinite"]=bad.get("nonfinite",0)+1; badq.append(q)
        except TO:
            bad["timeout"]=bad.get("timeout",0)+1; badq.append(q)
        except Exception as e:
            k=type(e).__name__+":"+str(e)[:40]; bad[k]=bad.get(k,0)+1; badq.append(q)
        finally:
            signal.alarm(0)
    print(d, bad, [round(x,6) for x in badq[:8]], round(time.time()-t,1))
