import numpy as np, gbigsmiles, warnings, traceback
warnings.simplefilter("ignore")
for s in ["[<]CC(C)([>])C(=O)OC", "C([$])[$]", "[$]CC([$])[$]", "CC([>])(C[<])C(=O)O", "[<]C(=O)c1ccc(cc1)C(=O)[<]", "C(=[$])C[$]", "[$]=CC=[$]", "[$]C(Cl)(Br)[$]", "[<]C(C(C)[>])C", "[<]C(C(C)([>])C)C", "O([<])(C([$])C[$])","[$]=C", "C=[$]", "C(=[$])", "[<]CC(=[>])C", "[$][$]"]:
    try:
        t = gbigsmiles.SmilesToken(s, 0, 0)
        print(s, "->", str(t), "| frag", t.generate_smiles_fragment(), "| atoms", [a.generate_string(False) for a in t.atoms], "| bd", [(str(b), b.atom_bonding_to, str(b.bond_type), repr(b.preceding_characters)) for b in t.bond_descriptors], "| el", [e if isinstance(e,str) else str(e) for e in t.elements])
    except Exception as e:
        print("FAIL", s, type(e).__name__, e)
