import numpy as np, gbigsmiles, warnings, collections, time
warnings.simplefilter("ignore")
from scipy import stats
def sizes(s, unit_pat, N, seed=0):
    m = gbigsmiles.Molecule(s); rng = np.random.default_rng(seed); c=collections.Counter()
    for i in range(N):
        try: g = m.generate(rng=rng)
        except RuntimeError as e:
            c["ERR"]+=1; continue
        n = sum(1 for _,d in g.graph.nodes(data=True) if d["smiles"]==unit_pat); c[n]+=1
    return c
unit = 36.033
def expect(cdf_lt, kmax=40):
    pi=[]; prev=0.0
    for k in range(1,kmax):
        cur = cdf_lt(k*unit); pi.append(cur-prev); prev=cur
    pi[0] = cdf_lt(unit)
    return pi
N=1500
cases = [("gauss(200, 40)", lambda x: stats.norm(200,40).cdf(x)),
         ("uniform(50, 400)", lambda x: stats.uniform(50,350).cdf(x)),
         ("log_normal(200, 1.3)", lambda x: stats.lognorm(s=np.sqrt(np.log(1.3)), scale=200/np.sqrt(1.3)).cdf(x)),
         ("poisson(200)", lambda x: stats.poisson(200).cdf(np.ceil(x)-1)),
         ("schulz_zimm(300, 200)", lambda x: stats.gamma(a=2.0, scale=100.0).cdf(x)),
         ("flory_schulz(0.01)", lambda x: (lambda k: 1-(1-0.01)**k*(1+0.01*k))(np.ceil(x)-1))]
for d, F in cases:
    t=time.time()
    c = sizes("F{[<][<]CC(C)[>][>]}|%s|Cl" % d, "CC(C)", N)
    pi = expect(F)
    err = c.pop("ERR",0); n = sum(c.values())
    obs = np.array([c.get(k,0) for k in range(1,40)]); exp = np.array(pi)*n
    # pool
    mask = exp>=8
    o = np.append(obs[mask], obs[~mask].sum()); e = np.append(exp[mask], max(exp[~mask].sum(),1e-9))
    chi = ((o-e)**2/e).sum(); p = stats.chi2.sf(chi, len(o)-1)
    print(d, "n", n, "err", err, "chi2", round(chi,1), "dof", len(o)-1, "p", p, "mean size", (obs*np.arange(1,40)).sum()/n, "exp", (np.array(pi)*np.arange(1,40)).sum(), round(time.time()-t,1),"s")
