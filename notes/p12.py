import numpy as np, gbigsmiles, warnings, traceback, time, shutil, os
warnings.simplefilter("ignore")
from importlib.resources import files
from rdkit import Chem
m = gbigsmiles.Molecule("CCC(C){[>][<]CC([>])c1ccccc1[<]}|gauss(300, 20)|{[>][<]CC([>])C(=O)OC[<]}|gauss(200, 20)|[H]")
g = m.generate(rng=np.random.default_rng(1))
print(g.smiles)
ff, mol = g.forcefield_types
print(len(ff), mol.GetNumAtoms(), [ (mol.GetAtomWithIdx(i).GetSymbol(), ff[i].mass, ff[i].bond_type_name) for i in list(ff)[:6]])
bad = [(i, mol.GetAtomWithIdx(i).GetSymbol(), ff[i].mass) for i in ff if abs(ff[i].mass - Chem.GetPeriodicTable().GetAtomicWeight(mol.GetAtomWithIdx(i).GetAtomicNum()))>0.05]
print("mass mismatches", bad[:5], len(bad))
shutil.copy(files("gbigsmiles").joinpath("data","opls.par"), "/tmp/scratch/opls_copy.par")
shutil.copy(files("gbigsmiles").joinpath("data","ffnonbonded.itp"), "/tmp/scratch/nb_copy.itp")
try:
    ff2, mol2 = g.get_forcefield_types("/tmp/scratch/opls_copy.par", "/tmp/scratch/nb_copy.itp")
    print("explicit ok", len(ff2))
except Exception as e:
    print("explicit FAIL", type(e).__name__, str(e)[:200])
try:
    ff3, mol3 = g.forcefield_types
    print("default after explicit ok", len(ff3))
except Exception as e:
    print("default after explicit FAIL", type(e).__name__, str(e)[:200])
# various chemistry
for s in ["CCO", "c1ccccc1", "CC(=O)O", "CCN", "CCCl", "CCBr", "CCF", "CC#N", "C=C", "CCS", "C[Si](C)(C)C", "CC(=O)N", "COC", "CC=O", "c1ccncc1","CP"]:
    try:
        gg = gbigsmiles.Molecule(s).generate()
        ff, mm = gg.forcefield_types
        print(s, "ok", len(ff), sorted(set(p.bond_type_name for p in ff.values())))
    except Exception as e:
        print(s, "FAIL", type(e).__name__, str(e)[:100], len(getattr(e,'incomplete_ff_dict',{})))
