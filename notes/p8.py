import numpy as np, gbigsmiles, warnings, traceback, time
warnings.simplefilter("ignore")
from gbigsmiles.bond import BondDescriptor
strs = [
 "NC{[$][$]C[$][$]}|uniform(12, 72)|COOC{[$][$]C[$][$]}|uniform(12, 72)|CO",
 "[H]{[>][<]CC([>])c1ccccc1, [<]CC[>]; [>|1|]O, [<|8.0|][H][<|8.0|]}|gauss(15000, 150)|[H]",
 "OC{[>] [<]CC[>], [<|.5|]C(N[>|.1 0 0 0 0 0 0|])C[>]; [<][H], [<]C [<]}|schulz_zimm(5000, 4500)|COOC{[<] [<]COC[>], [<]C(ON)C[>] [>]}|schulz_zimm(5000, 4500)|{[<] [<]COCOC[>], [<]CONOC[>] [>]}|schulz_zimm(1700, 1500)|F",
 "{[][$]C([$])C=O,[$]CC([$])CO;[$][H], [$]O[]}|flory_schulz(0.0011)|",
 "{[][$|3 4 5 6 0 8|]C([$|4.|])C=O,[$|6.|]CC([$|10.1|])CO;[$][H], [$]O[]}|flory_schulz(9e-4)|",
 "{[][<|2|]CC[>|3|], [<|5|]CO[>]; [<][H], [>]F, [>|3|]Cl []}|gauss(100,10)|",
 "CCOC{[$] C([<|0.3|])(C([$])C[$]), [>|0.2|]C=CCc1ccccc1[<|0 0 0 0.1 0 0.2|] ; [>][H] [$]}|schulz_zimm(900, 800)|N",
]
for s in strs:
    try:
        m = gbigsmiles.Molecule(s)
        G = m.gen_reaction_graph()
        print(str(m))
        for node in G:
            if isinstance(node, BondDescriptor):
                sums = {}
                for _, v, d in G.out_edges(node, data=True):
                    for k in ("prob","term_prob","trans_prob"):
                        if k in d: sums.setdefault(k, []).append((str(v), round(float(d[k]),4)))
                print("   ", str(node), node.descriptor_num, {k:(round(sum(x[1] for x in v),4), v) for k,v in sums.items()})
    except Exception as e:
        print("FAIL", s, type(e).__name__, e); traceback.print_exc(limit=3)
