import numpy as np, gbigsmiles, warnings, collections
warnings.simplefilter("ignore")
from rdkit import Chem
from gbigsmiles.stochastic import Stochastic
from gbigsmiles.token import SmilesToken
def compat(a,b):
    if a.descriptor=="" or b.descriptor=="": return False
    if a.descriptor_id!=b.descriptor_id or int(a.bond_type)!=int(b.bond_type): return False
    return (a.descriptor,b.descriptor) in (("$","$"),("<",">"),(">","<"))
def conj_of_terminal_ok(term, bd):
    # bd must be conjugate to the terminal's symbol (same id/order)
    if term.descriptor=="": return False
    class T: pass
    t=T(); t.descriptor=term.descriptor; t.descriptor_id=term.descriptor_id; t.bond_type=term.bond_type
    return compat(t, bd)
def ref_edges(mol):
    els = mol.elements
    offs=[]; n=0; tokens=[]
    for ei,e in enumerate(els):
        toks = [e] if isinstance(e, SmilesToken) else e.repeat_tokens+e.end_tokens
        for ti,t in enumerate(toks):
            na = Chem.MolFromSmiles(t.generate_smiles_fragment()).GetNumAtoms()
            tokens.append((ei,ti,t,n, (not isinstance(e,SmilesToken)) and ti>=len(e.repeat_tokens))); n+=na
    req=collections.Counter()
    def toks_of(ei): return [x for x in tokens if x[0]==ei]
    for ei,e in enumerate(els):
        if isinstance(e, Stochastic):
            allbd=[(bd,tk) for tk in toks_of(ei) for bd in tk[2].bond_descriptors]
            for g,tg in allbd:
                if tg[4]: continue
                if g.transitions is not None:
                    for (o,to),p in zip(allbd, g.transitions):
                        if p>0 and compat(g,o): req[(tg[3]+g.atom_bonding_to, to[3]+o.atom_bonding_to, int(g.bond_type), "stochastic", float(p))]+=1
                else:
                    for o,to in allbd:
                        if compat(g,o) and o.weight>0:
                            req[(tg[3]+g.atom_bonding_to, to[3]+o.atom_bonding_to, int(g.bond_type), "termination" if to[4] else "stochastic", float(o.weight))]+=1
        if ei+1 < len(els):
            r = els[ei+1]
            for tl in toks_of(ei):
                if tl[4]: continue
                for L in tl[2].bond_descriptors:
                    if isinstance(e, Stochastic) and not conj_of_terminal_ok(e.right_terminal, L): continue
                    for tr in toks_of(ei+1):
                        if tr[4]: continue
                        for R in tr[2].bond_descriptors:
                            if not compat(L,R): continue
                            if isinstance(r, Stochastic) and not conj_of_terminal_ok(r.left_terminal, R): continue
                            if R.weight>0: req[(tl[3]+L.atom_bonding_to, tr[3]+R.atom_bonding_to, int(L.bond_type), "transition", float(R.weight))]+=1
    return req, n
def lib_edges(mol):
    G = mol.gen_stochastic_atom_graph(True).graph
    got=collections.Counter()
    for u,v,d in G.edges(data=True):
        for k,nm in (("stochastic_weight","stochastic"),("termination_weight","termination"),("transition_weight","transition")):
            if d[k]: got[(u,v,int(d["bond_type"]),nm,float(d[k]))]+=1
    return got, G.number_of_nodes()
strs = ["F{[<][<]CC[>]; [<]Br [>]}|schulz_zimm(300,200)|{[<][>]CO[<]; [>]N []}|schulz_zimm(300,200)|",
 "OC{[>] [<]CC[>], [<|.5|]C(N[>|.1 0 0 0 0 0 0|])C[>]; [<][H], [<]C [<]}|schulz_zimm(5000, 4500)|COOC{[<] [<]COC[>], [<]C(ON)C[>] [>]}|schulz_zimm(5000, 4500)|{[<] [<]COCOC[>], [<]CONOC[>] [>]}|schulz_zimm(1700, 1500)|F",
 "{[][<]CC(C)[>]; [<]OC, [>]CN []}|schulz_zimm(300, 250)|",
 "N{[<][<|3|]CC[>], [<]CC(C#N)[>], [<|0.5|]CC(c1ccccc1)[>][>]}|schulz_zimm(400,300)|O",
 "{[][<1]CC[>2], [<2]C(=O)O[>1]; [>1]F, [<1]Cl, [>2]Br, [<2]I []}|schulz_zimm(400,300)|",
 "{[][<]CC([>])[>]; [<]F, [>]Cl []}|schulz_zimm(400,300)|",
 "F{[<][<]CC[>][>]}|schulz_zimm(400,300)|C(=O)N{[<][<]COC[>][>]}|schulz_zimm(400,300)|Cl",
 "CCOC{[$] C([<|0.3|])(C([$])C[$]), [>|0.2|]C=CCc1ccccc1[<|0 0 0 0.1 0 0.2|] ; [>][H] [$]}|schulz_zimm(900, 800)|N",
]
for s in strs:
    m = gbigsmiles.Molecule(s)
    req, n = ref_edges(m); got, n2 = lib_edges(m)
    missing = req - got; extra = got - req
    print(str(m)[:100], "| nodes", n, n2, "| req", sum(req.values()), "got", sum(got.values()), "| missing", dict(missing), "| extra", dict(extra))
