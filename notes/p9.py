import numpy as np, gbigsmiles, warnings, traceback, time
warnings.simplefilter("ignore")
from rdkit import Chem
from gbigsmiles import AtomGraph
strs = [
 "CC{[>][<]CC([>])c1ccccc1; [>]CO, [<]N(C)C [<]}|schulz_zimm(500, 400)|[H]",
 "{[][<]CC(C)[>]; [<]OC, [>]CN []}|schulz_zimm(300, 250)|",
 "OC{[>] [<]CC[>], [<|.5|]C(N[>|.1 0 0 0 0 0 0|])C[>]; [<][H], [<]C [<]}|schulz_zimm(500, 450)|COOC{[<] [<]COC[>], [<]C(ON)C[>] [>]}|schulz_zimm(500, 450)|{[<] [<]COCOC[>], [<]CONOC[>] [>]}|schulz_zimm(170, 150)|F",
]
for s in strs:
    m = gbigsmiles.Molecule(s)
    sag = m.gen_stochastic_atom_graph(True)
    G = sag.graph
    print(str(m)); print("  nodes", [(n, d["atomic_num"]) for n,d in G.nodes(data=True)])
    for u,v,d in G.edges(data=True):
        kind = [k for k in ("static_weight","stochastic_weight","termination_weight","transition_weight") if d[k]]
        if kind != ["static_weight"]: print("   ", u, v, d["bond_type"], {k:d[k] for k in kind})
    for seed in range(4):
        t=time.time()
        ag = AtomGraph(sag, rng=np.random.default_rng(seed)); ag.generate()
        mol = ag.to_mol()
        print("   seed", seed, Chem.MolToSmiles(mol), ag.mw, ag._mw_draw_map, round(time.time()-t,2))
    for seed in range(2):
        print("   molgen", m.generate(rng=np.random.default_rng(seed)).smiles)
