import numpy as np, gbigsmiles, warnings
warnings.simplefilter("ignore")
for s in ["F{[<][<]CC[>]; [<]Br [>]}|schulz_zimm(300,200)|{[<][>]CO[<]; [>]N []}|schulz_zimm(300,200)|",
          "F{[<][<]CC[>], [>]CC([>])[<]; [<]Br [>]}|schulz_zimm(300,200)|{[<][>]CO[<]; [>]N []}|schulz_zimm(300,200)|",]:
    m = gbigsmiles.Molecule(s)
    print(str(m))
    G = m.gen_stochastic_atom_graph(True).graph
    print("  nodes", [(n, d["atomic_num"]) for n,d in G.nodes(data=True)])
    for u,v,d in G.edges(data=True):
        kind = {k:d[k] for k in ("stochastic_weight","termination_weight","transition_weight") if d[k]}
        if not d["static_weight"]: print("   ", u, v, d["bond_type"], kind)
    for seed in range(3):
        try:
            g = m.generate(rng=np.random.default_rng(seed)); print("   gen", g.smiles, g.fully_generated)
        except Exception as e: print("   gen FAIL", type(e).__name__, e)
