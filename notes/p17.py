import gbigsmiles, signal, warnings
warnings.simplefilter("ignore")
class TO(Exception): pass
def h(*a): raise TO()
signal.signal(signal.SIGALRM, h)
for s in ["CC.|100", "CC.|", "CC.|10%", "CC.|100|CC.|", "{[][$]CC[$][]}|gauss(1,2)", "C{[$][$]CC[$][$]}|gauss(1,2)|.|"]:
    for nm, f in (("System", gbigsmiles.System), ("Molecule", gbigsmiles.Molecule)):
        signal.alarm(3)
        try:
            o = f(s); r = "ACCEPT "+str(o)
        except TO: r = "TIMEOUT (non-termination)"
        except Exception as e: r = "REJECT %s %s" % (type(e).__name__, str(e)[:60])
        finally: signal.alarm(0)
        print(nm, repr(s), r)
