import re, ast, sys, warnings, numpy as np
warnings.simplefilter("ignore")
import gbigsmiles
print(gbigsmiles.__file__)
# corpus: all string literals in tests + README/SI code that look like bigsmiles
cands=set()
import glob
for f in glob.glob("/repo/tests/*.py")+["/repo/play.py"]:
    tree = ast.parse(open(f).read())
    for n in ast.walk(tree):
        if isinstance(n, ast.Constant) and isinstance(n.value, str) and ("{" in n.value or ".|" in n.value) and "[" in n.value: cands.add(n.value)
for f in ["/repo/README.md","/repo/SI.md"]:
    for m in re.finditer(r'"([^"\n]*\{[^"\n]*\}[^"\n]*)"', open(f).read()): cands.add(m.group(1))
print(len(cands), "candidates")
import signal
class TO(Exception): pass
def h(*a): raise TO()
signal.signal(signal.SIGALRM,h)
stats={"ok":0}
for s in sorted(cands):
    for nm, cls in (("System", gbigsmiles.System), ("Molecule", gbigsmiles.Molecule)):
        if nm=="Molecule" and s.count(".|")>1: continue
        signal.alarm(5)
        try: o = cls(s)
        except TO: print(nm,'PARSE TIMEOUT', s[:120]); continue
        except Exception as e: continue
        finally: signal.alarm(0)
        c = str(o)
        try:
            o2 = cls(c); c2 = str(o2)
        except Exception as e:
            print(nm, "REPARSE FAIL", type(e).__name__, str(e)[:80], "\n   s=", s[:150], "\n   c=", c[:150]); continue
        if c2 != c: print(nm, "NOT FIXED POINT\n   c =", c, "\n   c2=", c2); continue
        ne = o.generate_string(False); er = re.sub(r"\|[^|]*\|", "", c)
        if ne != er: print(nm, "ERASE MISMATCH\n   ne=", ne, "\n   er=", er); continue
        if nm=="Molecule":
            try:
                o3 = cls(ne)
                if o3.generate_string(False)!=ne: print("NOEXT not fixed", ne, o3.generate_string(False))
            except Exception as e: print(nm, "NOEXT REPARSE FAIL", type(e).__name__, str(e)[:80], "\n   ne=", ne[:150]); continue
        stats["ok"]+=1
print(stats)
