import numpy as np, gbigsmiles, warnings, copy
warnings.simplefilter("ignore")
class Spy(np.random.Generator):
    def __init__(self, seed):
        super().__init__(np.random.PCG64(seed))
        self.log = []
    def choice(self, a, size=None, replace=True, p=None, axis=0, shuffle=True):
        r = super().choice(a, size=size, replace=replace, p=p, axis=axis, shuffle=shuffle)
        self.log.append(("choice", list(a) if not isinstance(a,int) else a, None if p is None else list(map(float,p)), r))
        return r
    def uniform(self, *a, **k):
        r = super().uniform(*a, **k); self.log.append(("uniform", a, k, r)); return r
    def random(self, *a, **k):
        r = super().random(*a, **k); self.log.append(("random", a, k, r)); return r
    def normal(self, *a, **k):
        r = super().normal(*a, **k); self.log.append(("normal", a, k, r)); return r
    def standard_normal(self, *a, **k):
        r = super().standard_normal(*a, **k); self.log.append(("standard_normal", a, k, r)); return r
    def poisson(self, *a, **k):
        r = super().poisson(*a, **k); self.log.append(("poisson", a, k, r)); return r
for d in ["gauss(100,10)", "uniform(50,150)", "flory_schulz(0.1)", "schulz_zimm(150,100)", "log_normal(100,1.2)", "poisson(100)"]:
    s = Spy(1)
    m = gbigsmiles.Molecule("N{[$][$]C[$][$]}|%s|O" % d)
    g = m.generate(rng=s)
    g2 = m.generate(rng=np.random.Generator(np.random.PCG64(1)))
    print(d, g.smiles, g.smiles == g2.smiles)
    for e in s.log[:4]: print("    ", e)
    print("   n events", len(s.log), set(e[0] for e in s.log))
s2 = copy.deepcopy(s); print(type(s2), len(s2.log))
