import numpy as np, gbigsmiles, warnings
warnings.simplefilter("ignore")
m = gbigsmiles.Molecule("F{[<][<]CC(C)[>], [<]CO[>]; [<]N [>]}|gauss(120,10)|C(=O){[<][<]CS[>][>]}|gauss(90,10)|Cl")
print(str(m))
for e in m.elements:
    if hasattr(e,"repeat_tokens"):
        print("  stoch", [(str(t), t.res_id) for t in e.repeat_tokens+e.end_tokens])
    else: print("  token", str(e), e.res_id)
g = m.generate(rng=np.random.default_rng(3))
mol = g.mol
print(g.smiles)
rows=[]
for a in mol.GetAtoms():
    ri = a.GetPDBResidueInfo()
    rows.append((a.GetIdx(), a.GetSymbol(), ri.GetResidueNumber() if ri else None, ri.GetResidueName() if ri else None, ri.GetName() if ri else None))
print(rows)
print("graph nodes", [(n, d["smiles"], d["big_smiles"]) for n,d in g.graph.nodes(data=True)])
print("graph edges", list(g.graph.edges(data=True)))
