import numpy as np, gbigsmiles, warnings, traceback, time
warnings.simplefilter("ignore")
S = gbigsmiles.System("C1CCOC1.|90%|F{[<][<]CC[>][>]}|gauss(700,50)|Cl.|20000|")
print(str(S), S.generable, S.system_mass)
class Spy(np.random.Generator):
    def __init__(self, seed): super().__init__(np.random.PCG64(seed)); self.log=[]
    def choice(self, a, size=None, replace=True, p=None, axis=0, shuffle=True):
        r = super().choice(a, size=size, replace=replace, p=p, axis=axis, shuffle=shuffle); self.log.append((len(a) if hasattr(a,'__len__') else a, None if p is None else tuple(np.round(p,6)), int(r))); return r
rng = Spy(3)
gen = gbigsmiles.System.generator.fget(S, rng)
tot=0; per={0:0.0,1:0.0}; n=0; ws=[]
for g in gen:
    w=g.weight; tot+=w; n+=1; ws.append(w)
    per[0 if "O" in g.smiles else 1]+=w
print(n, tot, per, {k:v/tot for k,v in per.items()}, "last", ws[-1], "before last", tot-ws[-1])
print(rng.log[0])
print(gbigsmiles.System.generator.fget.__defaults__)
