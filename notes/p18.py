import numpy as np, gbigsmiles, warnings, time, collections
warnings.simplefilter("ignore")
class Scripted(np.random.Generator):
    """choice() follows a script of option ranks; beyond the script takes rank 0 and records the branching factor"""
    def __init__(self, script):
        super().__init__(np.random.PCG64(0)); self.script=list(script); self.pos=0; self.trace=[]; self.prob=1.0
    def choice(self, a, size=None, replace=True, p=None, axis=0, shuffle=True):
        a = list(range(a)) if isinstance(a,(int,np.integer)) else list(a)
        p = [1.0/len(a)]*len(a) if p is None else [float(x) for x in p]
        assert abs(sum(p)-1)<1e-9 and all(x>=0 for x in p), p
        opts = [i for i,x in enumerate(p) if x>0]
        k = self.script[self.pos] if self.pos < len(self.script) else 0
        self.pos+=1
        self.trace.append((k, len(opts)))
        self.prob *= p[opts[k]]
        return a[opts[k]]
    def __deepcopy__(self, memo): return self
def enumerate_paths(mol, limit=100000):
    out = collections.Counter(); stack=[[]]; n=0
    while stack:
        script = stack.pop(); rng = Scripted(script)
        g = mol.generate(rng=rng); n+=1
        out[g.smiles] += rng.prob
        for i in range(len(script), len(rng.trace)):
            for alt in range(1, rng.trace[i][1]):
                stack.append([t[0] for t in rng.trace[:i]] + [alt])
        if n>=limit: break
    return out, n
for s in ["{[][<]CC[>], [<|2|]CO[>]; [<]F, [>]Cl, [>|3|]Br []}|gauss(40, 0)|",
          "N{[$][$]CC[$], [$]C(O)C[$][$]}|gauss(60,0)|F",
          "{[][<]CC([>])[>]; [<]F, [>]Cl []}|gauss(50, 0)|"]:
    m = gbigsmiles.Molecule(s); t=time.time()
    out, n = enumerate_paths(m)
    print(s, "paths", n, "distinct", len(out), "sum", sum(out.values()), round(time.time()-t,1),"s")
    for k,v in sorted(out.items(), key=lambda x:-x[1])[:6]: print("    ", k, round(v,5))
