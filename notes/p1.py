import time, numpy as np, gbigsmiles, warnings
warnings.simplefilter("ignore")
t=time.time()
m = gbigsmiles.Molecule("NC{[$][$]C[$][$]}|uniform(12, 72)|COOC{[$][$]C[$][$]}|uniform(12, 72)|CO")
print("parse", time.time()-t, str(m))
for s in range(3):
    t=time.time()
    g = m.generate(rng=np.random.default_rng(s))
    print(g.smiles, g.weight, g.fully_generated, time.time()-t)
m = gbigsmiles.Molecule("[H]{[>][<]CC([>])c1ccccc1[<]}|gauss(500, 50)|[H]")
for s in range(3):
    t=time.time()
    g = m.generate(rng=np.random.default_rng(s))
    print(g.smiles, g.weight, g.fully_generated, time.time()-t)
import cProfile, pstats
cProfile.run("m.generate(rng=np.random.default_rng(5))", "/tmp/scratch/prof")
pstats.Stats("/tmp/scratch/prof").sort_stats("cumtime").print_stats(18)
