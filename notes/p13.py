import numpy as np, gbigsmiles, warnings, traceback, time
warnings.simplefilter("ignore")
from rdkit import Chem
from gbigsmiles.mol_prob import get_ensemble_prob
from scipy import stats
def chain(prefix, unit, n, suffix): return prefix + unit*n + suffix
# prefix start, gauss
m = gbigsmiles.Molecule("F{[<][<]CC[>][>]}|gauss(100, 30)|Cl")
mu = 2*12.011
tot=0
for n in range(1,12):
    smi = "F"+"CC"*n+"Cl"
    p,_ = get_ensemble_prob(smi, m)
    ref = stats.norm(100,30).cdf(n*mu)-stats.norm(100,30).cdf((n-1)*mu)
    if n==1: ref = stats.norm(100,30).cdf(mu)   # at least one unit: everything below counts
    tot+=p
    print(n, smi, p, ref)
print("sum", tot)
# end-group start with heavy end group
m = gbigsmiles.Molecule("{[][<]CC[>]; [<]F, [>]Cl []}|uniform(40, 140)|")
tot=0
for n in range(1,9):
    smi = "F"+"CC"*n+"Cl"
    p,mt = get_ensemble_prob(smi, m)
    U = stats.uniform(40,100)
    ref = U.cdf(n*mu)-U.cdf((n-1)*mu)
    tot+=p
    print(n, smi, p, ref, len(mt))
print("sum", tot)
p,_ = get_ensemble_prob("FCCCF", m); print("outside", p)
p,_ = get_ensemble_prob("FCCCCF", m); print("outside FF", p)
# renumbering
mol = Chem.MolFromSmiles("FCCCCCCCl")
for i in range(3):
    perm = list(np.random.default_rng(i).permutation(mol.GetNumAtoms()))
    smi = Chem.MolToSmiles(Chem.RenumberAtoms(mol, [int(x) for x in perm]), canonical=False)
    print(smi, get_ensemble_prob(smi, m)[0])
