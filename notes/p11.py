import numpy as np, gbigsmiles, warnings, traceback, time
warnings.simplefilter("ignore")
def tryit(kind, s, gen=False):
    try:
        obj = {"mol": gbigsmiles.Molecule, "sys": gbigsmiles.System, "tok": lambda x: gbigsmiles.SmilesToken(x,0,0), "sto": lambda x: gbigsmiles.Stochastic(x,0), "bd": lambda x: gbigsmiles.BondDescriptor(x,0,"",0)}[kind](s)
        r = f"ACCEPT str={str(obj)!r} generable={obj.generable}"
        if gen:
            try:
                g = obj.generate(rng=np.random.default_rng(0)); r += f" GEN {g.smiles} full={g.fully_generated}"
            except Exception as e:
                r += f" GENFAIL {type(e).__name__}: {str(e)[:80]}"
    except Exception as e:
        r = f"REJECT {type(e).__name__}: {str(e)[:100]}"
    print(kind, repr(s), "->", r)
tryit("tok", "[$]CC(C[$]")
tryit("tok", "[$]CC)C([$]")
tryit("tok", "[$]CC[$")
tryit("tok", "[$]C[Si")
tryit("tok", "C[$]C")
tryit("tok", "CC[$]C[$]")
tryit("tok", "[$]C.[$]")
tryit("tok", "[?]CC[$]")
tryit("bd", "[?]")
tryit("bd", "[%]")
tryit("tok", "[$]C[Xx]C[$]")
tryit("tok", "[$|-1|]CC[$]", True)
tryit("sto", "{[][$]CC[$]; [$][H][]}|foo(1,2)|")
tryit("sto", "{[][$|1 2|]CC[$]; [$][H][]}|gauss(50,5)|")
tryit("sto", "{[][$|1 2 3 4|]CC[$]; [$][H][]}|gauss(50,5)|")
tryit("sto", "{[][$|1 2 3|]CC[$]; [$][H][]}|gauss(50,5)|", True)
tryit("sto", "{[][$|-1|]CC[$]; [$][H][]}|gauss(50,5)|", True)
tryit("mol", "CC{[$][$]CC[$][$]}|gauss(50,5)|CC.|100|CC")
tryit("sys", "CC.|100|CC.|150%|")
tryit("sys", "CC.|100|CC.|-5%|")
tryit("sto", "{[$][$]CC[$]; [$][H][]}|gauss(50,5)|", True)
tryit("mol", "{[$][$]CC[$]; [$][H][]}|gauss(50,5)|", True)
tryit("mol", "C[<]{[$][$]CC[$]; [$][H][]}|gauss(50,5)|", True)
tryit("mol", "C[>]{[<][<]CC[>]; [$][H][]}|gauss(50,5)|", True)
tryit("mol", "C{[<][<]CC[>][>]}|gauss(50,5)|", True)
tryit("mol", "C{[<][<]CC[>][>]}", True)
tryit("mol", "{[][$]CC[$]; [$][H][]}", True)
tryit("mol", "C{[<][<]CC[>][>]}|gauss(50,5)|C", True)
tryit("mol", "C{[<][<]CC[>][>]}|gauss(50,5)|[<]C", True)
tryit("mol", "C{[<][<]CC[>][>]}|gauss(50,5)|[>]C", True)
tryit("mol", "C{[<][<]CC[>]}|gauss(50,5)|C", True)
tryit("mol", "C{[<][<]CC[>][>]|gauss(50,5)|C", True)
tryit("mol", "C[<][<]CC[>][>]}|gauss(50,5)|C", True)
tryit("sto", "{[<][<]CC[>][>]", True)
tryit("sto", "{}", True)
tryit("sto", "{[]}", True)
tryit("sto", "{[][]}", True)
