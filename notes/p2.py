import numpy as np, gbigsmiles, warnings, traceback
warnings.simplefilter("ignore")
strs = [
 "NC{[$][$]C[$][$]}|uniform(12, 72)|COOC{[$][$]C[$][$]}|uniform(12, 72)|CO",
 "[H]{[>][<]CC([>])c1ccccc1[<]}|gauss(500, 50)|[H]",
 "{[][$]C([$])C=O,[$]CC([$])CO;[$][H], [$]O[]}|flory_schulz(0.0011)|",
 "OCC{[<][<]C(N)C[>] [>]}|gauss(100, 20)|{[<][<]C(=O)C[>]; [>]}|gauss(100, 20)|[Si]",
 "[H]{[<][<]C(N)C[>]; [>]CO []}|uniform(500, 600)|",
 "{[][<]C(N)C[>]; [<][H], [>]CO []}|uniform(500, 600)|",
 "CCO",
 "[H]{[>][<]CC([>])c1ccccc1[<]}",
 "{[][$]CC[$][]}",
]
for s in strs:
    try:
        m = gbigsmiles.Molecule(s)
        c = str(m)
        m2 = gbigsmiles.Molecule(c)
        c2 = str(m2)
        print("OK " if c==c2 else "DIFF", s, "->", c, "->", c2, "| noext:", m.generate_string(False))
        try:
            m3 = gbigsmiles.Molecule(m.generate_string(False)); print("   noext reparse:", str(m3), m3.generate_string(False))
        except Exception as e:
            print("   noext reparse FAIL", type(e).__name__, e)
    except Exception as e:
        print("FAIL", s, type(e).__name__, e)
        traceback.print_exc(limit=2)
