#!/bin/bash
# ./sweep.sh <tier> <seed> [IDs...]  -- runs checks one after another, prints one summary line per check
tier=$1; seed=$2; shift 2
ids="$@"; [ -z "$ids" ] && ids="C01 C02 C03 C04 C05 C06 C07 C08 C09 C10 C11 C12 C13 C14 C15 C16 C17 C18 C19 C20"
for c in $ids; do
  t0=$(date +%s)
  out=$(VERIF_SEED=$seed ./vcheck $c --tier $tier 2>&1); rc=$?
  t1=$(date +%s)
  echo "== $c tier=$tier seed=$seed rc=$rc wall=$((t1-t0))s"
  echo "$out" | grep -E "^(VIOLATION|INCONCLUSIVE|  cls=)" | cut -c1-400
  echo "$out" | tail -1 | cut -c1-200
done
